#!/bin/bash
# usage: mut.sh <file> <sed-expr> <verify-regex> [lines] [extra vcheck args]  (dev helper: apply a mutation to /repo, run vcheck verify, restore)
cd /repo || exit 2
sed -i "$2" "$1"
git diff --stat | tail -1
/verif/bin/vcheck verify -timeout 5s $5 "$3" | grep -v "^  ok" | head -${4:-12} | cut -c1-220
git checkout -- "$1"
