#!/bin/bash
# usage: mut.sh <file> <sed-expr> <verify-regex>   (dev helper: apply a mutation to /repo, run vcheck verify, restore)
cd /repo || exit 2
sed -i "$2" "$1"
git diff --stat | tail -1
/verif/bin/vcheck verify "$3" | grep -v "^  ok" | head -${4:-12}
git checkout -- "$1"
