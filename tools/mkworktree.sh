#!/bin/bash
# usage: mkworktree.sh <dir>   — scratch git worktree of /repo's HEAD for a sub-agent, WITHOUT the contract files
# (they are hidden with skip-worktree so that `git diff` in the worktree shows only the agent's change).
set -e
D=$1
git -C /repo worktree add -q --detach "$D" HEAD
cd "$D"
for f in $(git ls-files | grep "_verif.go$"); do git update-index --skip-worktree "$f"; rm -f "$f"; done
mkdir -p _out
echo "_out/" >> $(git rev-parse --git-path info/exclude)
