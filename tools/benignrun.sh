#!/bin/bash
# usage: benignrun.sh [vcheck-binary]  — development tool: applies every behaviour-preserving change of /verif/benign/<id>/ to /repo
# (which must be clean), verifies the function(s) it touches (target.txt: regexp on function keys), reverses the change and
# prints one line per change: quiet (all obligations discharged) or ALARM with the first failing obligation.
BIN=${1:-/verif/bin/vcheck}
cd /repo || exit 2
[ -z "$(git status --porcelain)" ] || { echo "/repo is not clean"; exit 2; }
for d in /verif/benign/*/; do
  id=$(basename $d); t=$(cat $d/target.txt); tags=verif; [ -f $d/tags.txt ] && tags=$(cat $d/tags.txt)
  git apply $d/patch.diff || { echo "$id: patch does not apply"; continue; }
  out=$($BIN verify -tags $tags -timeout 10s "$t" 2>&1)
  git apply -R $d/patch.diff
  bad=$(echo "$out" | grep -E "^  (FAIL|VACUOUS)|^SKIP [^_]*$|contract error" | grep -v "_Cfunc_" | head -1)
  if [ -z "$bad" ]; then echo "$id quiet   $(echo "$out" | grep -c discharged) function(s)"; else echo "$id ALARM   $(echo $bad | cut -c1-150)"; fi
done
