#!/bin/bash
# usage: seedsweep.sh <scratchdir> <seed-id>...   (development tool; not a registered check)
# Clones /repo's HEAD into <scratchdir>/<seed-id>, applies the seeded change there, runs the property's quick check
# on that clone (evidence and replay files go to the scratch dir as well), records the failed obligations in
# /verif/seeded/<seed-id>/meta.json ("detected_by") and removes the clone.
S=$1; shift
mkdir -p $S
for id in "$@"; do
  P=${id%%-*}; D=/verif/seeded/$id; W=$S/$id
  rm -rf $W; git clone -q ${SWEEP_REPO:-/repo} $W || exit 2
  if ! git -C $W apply $D/patch.diff 2>/tmp/seedsweep-apply.err; then
     if ! git -C $W apply -3 $D/patch.diff 2>>/tmp/seedsweep-apply.err; then echo "$id: patch does not apply to HEAD"; python3 - $D <<'PY'
import json,sys
p=sys.argv[1]+'/meta.json'; m=json.load(open(p)); m['detected_by']='patch no longer applies to /repo HEAD (a fix: commit touched the same lines)'; json.dump(m,open(p,'w'),indent=1)
PY
     rm -rf $W; continue; fi
  fi
  VCHECK_REPO=$W VCHECK_OUT=$W/_out VCHECK_VERIF=${SWEEP_VERIF:-/verif} ${VCHECK_BIN:-/verif/bin/vcheck} check --prop $P --tier quick > $W/_check.log 2>&1; rc=$?
  python3 - $D $W/_check.log $rc $P <<'PY'
import json,sys,re
d,log,rc,P=sys.argv[1:5]
obl=[]; verdicts={}
for l in open(log):
    m=re.search(r'^VIOLATION property=\S+ replay=\S+ obligation=(.*?) at \S* \(([^)]*)\)',l)
    if m:
        obl.append(m.group(1)); verdicts[m.group(2)]=verdicts.get(m.group(2),0)+1
p=d+'/meta.json'; m=json.load(open(p))
if rc=='1' and obl:
    m['detected_by']={"check":f"vcheck check --prop {P} --tier quick","exit":1,"failed_obligations":obl[:12],"n_failed":len(obl),"solver_verdicts":verdicts}
elif rc=='0':
    m['detected_by']={"check":f"vcheck check --prop {P} --tier quick","exit":0,"missed":True}
else:
    m['detected_by']={"check":f"vcheck check --prop {P} --tier quick","exit":int(rc),"note":"engine error (contract shape / vacuity): "+open(log).read()[-400:]}
json.dump(m,open(p,'w'),indent=1)
print(d.split('/')[-1], 'exit',rc, (obl[:2] if obl else ''))
PY
  rm -rf $W
done
