#!/bin/bash
# usage: seedconfirm.sh <prop> <k>   — confirms seeded change k of /tmp/seed-<prop>/_out in that scratch worktree:
#   demo passes on the unchanged tree, fails with the patch, and the whole suite passes with the patch.
# On success copies it to /verif/seeded/<prop>-<k>/ with meta.json.
set -u
P=$1; K=$2; W=${SEED_DIR:-/tmp/seed-$P}; O=$W/_out; KK=$(( K + ${SEED_OFFSET:-0} ))
export PATH=/opt/veriftools/go1.26.8/bin:$PATH GOTOOLCHAIN=local GOFLAGS=-mod=mod GOPROXY=off GOSUMDB=off
cd $W || exit 2
git checkout -q -- . ; git clean -fdq -e _out
pkg=$(grep -m1 '^package ' $O/demo_${K}_test.go | awk '{print $2}')
case $pkg in crypto) d=. ;; hash) d=hash ;; random) d=random ;; *) echo "unknown package $pkg"; exit 2;; esac
cp $O/demo_${K}_test.go $d/zz_seed_demo_test.go
names=$(grep -oE '^func (Test[A-Za-z0-9_]+)' $d/zz_seed_demo_test.go | awk '{print $2}' | paste -sd'|')
run_demo() { (cd $W/$d && go test -vet=off -count=1 -timeout 20m -run "^($names)\$" . > /tmp/seedconfirm-$P-$K-$1.log 2>&1); echo $?; }
r_clean=$(run_demo clean)
git apply $O/patch_$K.diff || { echo "patch does not apply"; exit 2; }
r_patched=$(run_demo patched)
rm -f $d/zz_seed_demo_test.go
(go test -vet=off -count=1 -timeout 25m ./... > /tmp/seedconfirm-$P-$K-suite.log 2>&1); r_suite=$?
git checkout -q -- . ; git clean -fdq -e _out
echo "prop=$P k=$K demo_clean_exit=$r_clean demo_patched_exit=$r_patched suite_patched_exit=$r_suite"
if [ "$r_clean" = 0 ] && [ "$r_patched" != 0 ] && [ "$r_suite" = 0 ]; then
  D=/verif/seeded/$P-$KK; mkdir -p $D
  cp $O/patch_$K.diff $D/patch.diff; cp $O/demo_${K}_test.go $D/demo_test.go; cp $O/notes_$K.md $D/notes.md
  python3 - "$P" "$KK" "$d" "$names" <<'PY'
import json,sys
P,K,d,names=sys.argv[1:5]
notes=open(f'/verif/seeded/{P}-{K}/notes.md').read()
json.dump({"property":P,"source":"independent sub-agent working from the property text only (scratch worktree of the base commit, nothing from /verif)",
 "needs_to_manifest":notes.strip().split('\n')[0:8],
 "demo_package_dir":d,"demo_tests":names,
 "confirmed_by_me":{"demo_on_unchanged_tree":"pass","demo_with_patch":"fail","full_suite_with_patch":"pass",
   "commands":[f"cd /tmp/seed-{P}/{d} && go test -vet=off -count=1 -run '^({names})$' .  (clean: exit 0; patched: non-zero)",
               f"cd /tmp/seed-{P} && git apply patch.diff && go test -vet=off -count=1 -timeout 25m ./...  (exit 0)"]},
 "detected_by":"(filled in after running the checks)"}, open(f'/verif/seeded/{P}-{K}/meta.json','w'), indent=1)
PY
  echo CONFIRMED $D
else
  echo NOT-CONFIRMED; tail -5 /tmp/seedconfirm-$P-$K-*.log
fi
