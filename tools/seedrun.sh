#!/bin/bash
# usage: seedrun.sh <patch.diff> <prop> [prop...] — apply a seeded change to /repo, run the quick checks, undo it.
patch=$1; shift
if [ -n "$(git -C /repo status --porcelain)" ]; then echo "seedrun: /repo has uncommitted changes; commit them first"; exit 2; fi
cd /repo && git apply "$patch" || exit 2
for p in "$@"; do /verif/bin/vcheck check --prop $p | cut -c1-260; echo "exit($p)=$?"; done
git -C /repo checkout -- .
