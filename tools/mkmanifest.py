#!/usr/bin/env python3
"""Regenerates /verif/MANIFEST.json from the table below (run after claiming / dropping a property)."""
import json

props = [json.loads(l)['id'] for l in open('/verif/properties.jsonl')]

TRUSTED = ("Trusted base: go/types+go/ssa construction of the verified text, the vcheck VC generator, z3/cvc5; "
           "assumed contracts of external functions are listed per run in the evidence file (assumptions[]).")

claimed = {
 "C02": dict(
   text="VerifyBLSSignatureOneMessage is proved to be Verify under the affine sum (spec-level fold e2sum) of the keys' points, with the error classes of an empty list, a non-BLS key, a nil or ill-sized hasher, and (false, nil) for a wrong-length signature or keys summing to the identity. "
        "VerifyBLSSignatureManyMessages: input validation exact (wrong-length signature => (false,nil) first; empty list, mismatched lengths, nil/ill-sized hasher, non-BLS key => the documented error classes; any identity key => (false,nil)); the two flattening loops (iteration over the two maps, nested loop over the hashes of a key) are proved to establish the preconditions of the C functions: "
        "counts per group >= 1, every hash 128 bytes long, len(flat hashes) = 128 * number of hashes, len(allPks) = sum of the per-hash key counts (ghost sum of the value lengths of a map and of the values visited by an iteration), so that every offset the C code computes stays inside its buffer. "
        "C (clang AST): bls_verifyPerDistinctMessage and bls_verifyPerDistinctKey return VALID exactly when the signature is a canonical encoding of a G1 point and the product of pairings over (signature, -g2) and the groups is one, where per message the group's G2 operand is the sum of its keys (E2_sum_vector, offsets = prefix sums isum) and per key the G1 operand is the sum of the hash-to-curve images of its messages; never UNDEFINED; the temporary array is large enough for the largest group. "
        "NOT decided: that the two groupings give the same verdict as the ungrouped product over the input triples (bilinearity + commutativity: paper step); independence of the Go map iteration order (same paper step); Fp12_multi_pairing itself (N_MAX batching, infinity operands skipped) is an assumed contract.",
   note=TRUSTED + " BLST primitives and Fp12_multi_pairing (= left fold of gtMul over gtPair) are assumed; hash-to-curve is a function of the 128 bytes (chunk lemma proved from the extensionality of byte-string names, which is assumed); iteration over an unmodified Go map visits every key exactly once (counts and value-length sums of the visited keys: assumed semantics); len(pks) <= 2^24-1 is a precondition (the C code counts bytes in an int).",
   design="§0.2, §5 C02"),
 "C07": dict(
   text="Per-participant key-consistency contracts of Feldman VSS, Feldman-VSS-Qual and Joint-Feldman End, proved as representation invariants preserved by every handler for every order of message arrival: "
        "(share consistency) whenever the verification vector is in and the dealer is not disqualified, this participant's private share matches its public share (g2^x == y_me, the C check G2_check_log) or its own complaint is still unanswered; an answered own complaint has replaced the share by the published answer; "
        "(answers) every complaint that was both received and answered has an answer matching the complainer's public share as soon as the vector is known - whether complaint, answer or vector arrives last - otherwise the dealer is disqualified; "
        "(timeouts) a missing vector at the shares timeout, more than t complaints at the complaints timeout, a malformed vector or answer disqualify; "
        "(End) Qual: keys only if not disqualified and no complaint is left unanswered, and then the returned private key is x, the group key vA[0], the public shares y[k], with x*g2 == y_me; plain VSS likewise under validKey; "
        "Joint-Feldman End: every instance with an unanswered complaint is disqualified before the keys are summed, the failure rule and error classes are exact. "
        "The dealer's side: Fr_polynomial_image_write's public image is the generator times the written share. "
        "NOT decided: agreement ACROSS participants (same verdicts, same group key) is the assume-guarantee composition over a reliable broadcast channel (paper step); that the Horner value equals the sum of A_i x^i and commutes with multiplication by the generator (group laws: paper step), and that the summed keys are the qualified dealers' contributions is verified structurally only: Joint-Feldman End counts the disqualified instances (invariant: i minus the counter equals the number of non-disqualified instances among the first i, a spec-level fold over the flags), getQualifiedKeys returns exactly that many keys of each kind (no assumption left: the counting argument is proved through the nested append loops) and never indexes an instance's vector or share list out of range, and sumUpQualifiedKeys hands the C sums buffers of exactly that length and sums the public share of every one of the n participants (loop-exit clause); WHICH dealers' keys end up in the lists (the functional content of the filter) is not specified. Decided: every public share y[k] is the Horner value of the received verification vector at k+1 (E2_polynomial_image, E2_polynomial_images, E2PolynomialImages, computePublicKeys: spec function e2horner, loop invariants over the real C loops), the dealer's share for participant x is the Horner value of its coefficient vector at x (Fr_polynomial_image(_write), frPolynomialImage: frhorner) and its public image is the generator times that share; Joint-Feldman's per-message loops (Start / NextTimeout / Handle*) are checked for typestate and memory safety only (C10/C09), not for key consistency.",
   note=TRUSTED + " G2 arithmetic and the equality test are BLST primitives (uninterpreted; equality is reflexive and blind to the affine conversion: assumed); g2vecValid (a 96n-byte string decodes to n G2 points) is an abstract predicate introduced by an assumed clause; composition across participants is not machine-checked.",
   design="§0.2, §5 C07"),
 "C11": dict(
   text="ECDSA Sign / Verify / SignatureFormatCheck are verified (go/ssa) over assumed contracts of crypto/ecdsa, math/big and the Hasher interface, for both curves: "
        "Verify returns errNilHasher for a nil hasher and an invalidHasherSizeError for a hasher shorter than 32 bytes; otherwise (result, nil) with result == (len(sig) == 64 && 1 <= r, s < n && ECDSA equation on the hasher's digest of the data), r and s being the big-endian values of the two 32-byte halves (so a longer or shorter string, r or s in {0, n, ...} are rejected with (false, nil)); the digest handed to crypto/ecdsa is the whole hasher output; "
        "Sign returns the 64 bytes r || s, each left-padded to 32 bytes, of the pair crypto/ecdsa.Sign returned for the WHOLE digest (r, s in [1, n-1]), same guards; keys are left unmodified; "
        "SignatureFormatCheck(algo, s) == (len(s) == 64 && 1 <= r, s < n_algo) with the group order of the algorithm's own curve (P-256 / secp256k1 constants), an invalid-input error for other algorithms; hence format check false implies Verify false for every key and message of that curve. "
        "NOT decided: that crypto/ecdsa implements ECDSA on the leftmost 256 bits (assumed contract), the (r, n-s) twin statement (a consequence of the assumed equation), secp256k1 going through Go's generic-curve path.",
   note=TRUSTED + " crypto/ecdsa, math/big, crypto/elliptic, btcec are assumed contracts; the curve contexts' values are assumed global facts; the representation invariant of key objects is a precondition (constructors: see C12/C05).",
   design="§0.2, §5 C11"),
 "C12": dict(
   text="Key generation and key construction, verified (go/ssa, C glue from the clang AST) over assumed contracts of crypto/hkdf, crypto/ecdh, btcec, crypto/elliptic and math/big: "
        "GeneratePrivateKey rejects unsupported algorithms and seeds shorter than 32 or longer than 256 bytes with an invalid-input error (all three algorithms) and never fails otherwise; "
        "ECDSA: the private scalar is d = (OS2IP(HKDF-SHA256(seed, salt = empty, info = empty, L = 48)) mod (n-1)) + 1 - the WHOLE seed goes into HKDF - so d is in [1, n-1], and the Go key holds d and the public point (pubX, pubY)(curve, d) computed by crypto/ecdh (P-256, from the 32-byte big-endian scalar: FillBytes) or btcec's ScalarBaseMult (secp256k1); the context (curve) of the key is the algorithm's own; "
        "DecodePrivateKey(ECDSA) accepts exactly the 32-byte big-endian scalars in [1, n-1] and builds the same kind of key; PublicKey() of an ECDSA private key returns the cached key object wrapping that public point (same object on every call); "
        "BLS: seed bounds as above, the generated scalar is OS2IP(okm) mod r of an HKDF output, never zero (the loop repeats with a re-hashed salt until it is non-zero) and reduced; the public key of every BLS private key is scalar * g2 with a truthful identity flag, cached (computePublicKey / PublicKey: also part of C01). "
        "NOT decided: the exact salt / info strings and the salt re-hashing of the IETF BLS KeyGen (the hash values of crypto/sha256 are not specified: only sizes and frames), which hash constructor is passed to HKDF (function values are not compared), determinism is implied by the functional contracts of the assumed libraries.",
   note=TRUSTED + " crypto/hkdf, crypto/sha256, crypto/ecdh, btcec, crypto/elliptic, math/big are assumed contracts (contracts/trusted/ecdsa.spec, stdlib.spec); the curve contexts' values are assumed global facts.",
   design="§0.2, §5 C12"),
 "C03": dict(
   text="The deterministic structure of batch verification is verified (go/ssa and clang AST); the statement `equal to individual verification except with probability 2^-128` is a paper step over it. "
        "C: bls_batch_verify marks exactly the entries whose 48 bytes are not the canonical encoding of a point of G1 as INVALID up front (decoding AND subgroup check) and replaces them by the neutral pair; every other entry enters the tree as (c_k * pk_k, c_k * s_k) with the SAME coefficient c_k = 1 + (k-th 16-byte chunk of the seed) on key and signature (loop invariants over spec-level sequences); for a 128-byte hash every entry ends VALID or INVALID, a premarked INVALID is never overwritten. "
        "bls_batch_verify_tree (recursive, against the abstract tree predicate treeOK unfolded one level): INVALID marks are kept, every UNDEFINED entry of the range is decided, a verifying aggregate validates exactly the undecided entries of its range, a failing leaf is INVALID, the two recursive calls cover [0, len - len/2) and [len - len/2, len) with the matching subtrees, all writes stay inside results[0:len). "
        "build_tree: memory safety, frame, and the root holds the tree-shaped sum (spec function, unfolded once) of the leaves' signatures / keys; its well-formedness postcondition treeOK is an ASSUMED clause. "
        "Go: BatchVerifyBLSSignaturesOneMessage returns one verdict per signature, all false with the documented error class on an input error, false for a wrong-length signature or an identity key, and true ONLY for a 48-byte canonical encoding of a G1 point under a non-identity key (flattened chunks proved to decode like the input signatures); the seed handed to C is proved to be, byte for byte, what crypto/rand.Read wrote (16 bytes per signature). "
        "NOT decided: the probabilistic soundness of random linear combinations, the link `leaf check with coefficient c == individual Verify` (group theory), well-formedness of the tree built by build_tree (assumed).",
   note=TRUSTED + " treeOK of build_tree's result is assumed (frame argument over recursively allocated nodes not mechanised); malloc is assumed to succeed; BLST primitives uninterpreted; crypto/rand.Read fills the buffer with system randomness (marker semantics).",
   design="§0.2, §5 C03"),
 "C04": dict(
   text="Every aggregation function is proved, for all list lengths and contents, to return THE sum of its inputs in the group it works in, stated with spec-level left folds (e1sum / e2sum / frsum: identity for n <= 0, add(sum(n-1), x[n-1]) otherwise) over the uninterpreted BLST additions: "
        "C (from the clang AST): Fr_sum_vector, E1_sum_vector, E2_sum_vector (loop invariant `partial sum`), E2_sum_vector_to_affine (= affine form of the sum, infinity preserved), E2_subtract_vector (= x + (-(sum y))), "
        "E1_sum_vector_byte (accepts exactly the lists of canonical 48-byte encodings, result = canonical encoding of the sum of the decoded points; no subgroup check, by design); "
        "Go: AggregateBLSPublicKeys (point of the result = affine(sum of the keys' points), identity flag recomputed: invariant pkWF), RemoveBLSPublicKeys (= aggKey + (-(sum of removed)), empty list returns aggKey itself), "
        "AggregateBLSPrivateKeys (scalar = sum of the scalars), AggregateBLSSignatures (error classes exact: empty list, any signature of length != 48, any non-canonical encoding => errInvalidSignature; otherwise the encoding of the sum of the decoded points); "
        "the flattening loops are proved chunk by chunk (`the k-th 48-byte chunk of the flat buffer decodes like signature k`). Two lemmas are proved by induction in every run: a sum depends only on the summed elements, and the decoded point / canonicity of a chunk depends only on its 48 bytes (from the byte-level definition). "
        "NOT machine-checked (paper step over the proved folds): commutativity/associativity consequences (order independence, nesting), and the homomorphism statements relating the three aggregations (they need the group axioms of BLST's additions).",
   note=TRUSTED + " BLST additions/negation/affine conversion are uninterpreted functions (assumed contracts of E1_add, E2_add, Fr_add, E2_neg, E2_to_affine); malloc is assumed to succeed; group laws (abelian) are not axiomatised, so order-independence is a paper step.",
   design="§0.2, §5 C04"),
 "C19": dict(
   text="Race-freedom is decided through frame conditions proved on the real code: a call that writes no memory existing before the call cannot race with another such call, and a result that is a function of the argument VALUES cannot depend on concurrent readers. "
        "Proved (`assigns` clauses, every store, map update, call and C call checked against them): (*kmac128).ComputeHash writes nothing that exists at entry (it works on a clone; Clone/Write/Read of the cSHAKE state per the assumed x/crypto contract) and leaves the shared sponge ghost state unchanged; "
        "(*prKeyBLSBLS12381).Sign, (*pubKeyBLSBLS12381).Verify, BLSVerifyPOP (which shares the package-level popKMAC hasher), SPOCKVerify write no existing memory: keys (`unchanged(pk.point)`, `unchanged(pk.isIdentity)`), message and signature buffers are outside the frame, results are fresh buffers, and the hasher is only used through ComputeHash whose interface contract leaves its configuration untouched; "
        "the C functions they reach (bls_sign, bls_verify, bls_spock_verify, E1/E2 readers and writers) are verified from the clang AST to write only their out-parameters and locals. Each function's postcondition gives the result as a function of the argument values, hence `what it returns when run alone`. "
        "Likewise (added later): VerifyBLSSignatureOneMessage and BatchVerifyBLSSignaturesOneMessage (frame: only the ghost state of the one KMAC hasher; keys, signatures and message untouched; the batch seed is a fresh buffer), AggregateBLSSignatures / AggregateBLSPrivateKeys (nothing assigned), ECDSA (*prKeyECDSA).Sign and (*pubKeyECDSA).Verify (frame: only the ghost state of the hasher argument, which is why the property asks for per-goroutine hashers; `key-untouched` postconditions). NOT covered: VerifyBLSSignatureManyMessages (its frame is `everything`: the grouping maps it builds are not separated from the arguments in the contract); a Hasher other than KMAC128 is only known through the interface contract (its ComputeHash may write its own state, which is why the property asks for per-goroutine hashers there).",
   note=TRUSTED + " The Go memory model is not modelled: `no write to pre-existing memory => no data race` is the paper step. BLST primitives are assumed to write only their out-parameters (const-qualified parameters are assumed unwritten: default leaf contract).",
   design="§0.2, §5 C19"),
 "C18": dict(
   text="Lock discipline and sequential specification of the stateful threshold-signature object, proved on the real methods of blsThresholdSignatureInspector/Participant: "
        "(1) every read of the guarded fields `shares` and `thresholdSignature` (including every map lookup, range and len on the share map) happens while this caller holds s.lock in read or write mode and every write (field store, map update) while it holds the write lock "
        "(ghost field `mode` of sync.RWMutex, assumed contract of Lock/Unlock/RLock/RUnlock incl. no double acquisition; obligations `lock:read:*`/`lock:write:*` generated at each access); the remaining fields are proved never written after construction (`immutable`), so the lock-free helpers (SignShare, VerifyShare, VerifyThresholdSignature) only read immutable state; "
        "(2) every public method has exactly one critical section (ghost acquisition counter) and returns with the lock released on every path, incl. the early error returns (defers modelled); "
        "(3) the sequential semantics: invariant `at most t+1 shares, one per signer index < n, cached signature has length 48` holds initially and is preserved by every method; shares are never removed or replaced, EnoughShares never reverts, TrustedAdd/VerifyAndAdd add exactly when new / (valid and) not yet enough with the exact error classes, VerifyAndAdd never stores a share whose verification verdict is false, "
        "ThresholdSignature caches only a reconstructed signature that verified under the group key and returns the cached slice on every later call. "
        "Linearizability itself (each critical section appears atomic, real-time order) is the semantics of RWMutex applied to (1)-(3): a paper step, not machine-checked; no interleaving is explored.",
   note=TRUSTED + " sync.RWMutex is an assumed contract (contracts/trusted/sync.spec) seen from one caller; other threads are not modelled; the Go memory model is not modelled. E1_lagrange_interpolate_at_zero_write is an assumed C contract (memory footprint only).",
   design="§0.2, §5 C18"),
 "C06": dict(
   text="Validation and safety part of threshold signatures: BLSReconstructThresholdSignature rejects, with the exact error class, sizes/thresholds out of range, mismatched lists, fewer than t+1 shares, out-of-range and duplicate signers (map-based distinctness proved as a loop invariant) and shares whose length is not 48 (fix F6), and only then calls the C layer with buffers proved large enough ((t+1)*48 bytes, t+1 indices); "
        "the stateful object never returns a threshold signature whose verification under the group key was false (reconstruct-then-verify postcondition `never-an-unverified-signature`), reports not-enough-shares exactly when fewer than t+1 shares are held, and BLSThresholdKeyGen validates its parameters and returns n private / public BLS key shares with truthful identity flags. "
        "The C interpolation path (E1_lagrange_interpolate_at_zero_write, E1_lagrange_interpolate_at_zero, Fr_lagrange_coeff_at_zero, Fr_polynomial_image) is verified from the clang AST for memory safety and frames, and for Fr_lagrange_coeff_at_zero additionally that the 64-bit limb products of the batched index differences never wrap around (`nowrap` obligations under the inductive bound 255^(factors so far), at most 8 factors per limb). "
        "BLSThresholdKeyGen's shares: the share written for participant x is the Horner value of the generated coefficient vector at x (Fr_polynomial_image: spec function frhorner, loop invariant over the real C loop) and its public key share is the generator times it. NOT decided: that the Horner value is the polynomial sum (group laws), that the value computed by Fr_lagrange_coeff_at_zero is the Lagrange coefficient (sign tracking, the field operations are uninterpreted) and that reconstruction yields the same bytes for every signer subset.",
   note=TRUSTED + " Interpolation correctness is not covered; see text.",
   design="§0.2, §5 C06"),
 "C01": dict(
   text="The acceptance set of BLS verification is derived, contract by contract, from the real Go and C code: Verify returns result0 == (g1canon(s) && inG1(g1pt(s)) && e(g1pt(s), -g2) * e(H, pk) == 1) with H = map_to_G1 of the hasher output, for every 48-byte s, every message and every hasher with the KMAC configuration ghost; "
        "every other length, nil/ill-configured hasher and the identity flag give (false, nil) or the documented error. The C layer is verified from the clang AST: E1_read_bytes accepts exactly the canonical ZCash compressed encodings (flag bits, x < p, on-curve via sqrt, sign selection, infinity = 0xC0 then 47 zero bytes) and returns the decoded point, "
        "bls_verify checks G1 membership before the pairing, bls_sign writes the canonical encoding of sk*H. That exactly ONE string is accepted is the arithmetic lemma bls-acceptance, proved by the solver in the discrete-log model of the pairing groups (dS*(r-1) + sk*log H = 0 mod r iff dS = sk*log H mod r), combined with injectivity of the canonical encoding; reading the proved pairing condition as that dlog equation (cyclic groups of prime order r, bilinear non-degenerate pairing) is a paper step. "
        "The identity flag of a public key is tied to the point by the representation invariant pkWF, established by every function that creates or writes a public key object (the list of writers is recomputed from the SSA on every run; a new writer outside the contracts fails `invariant-writers`).",
   note=TRUSTED + " BLST primitives (field arithmetic, sqrt, point addition/multiplication, in_G1/in_G2, miller loop and final exponentiation, hash-to-curve map) are uninterpreted functions with the algebraic axioms listed in DESIGN.md §theories: their bodies (C and assembly of BLST) are not verified. "
        "KMAC128/cSHAKE is the assumed contract of C13. Collision resistance (distinct messages hash to distinct points) is outside any contract: `another message yields false` is proved only in the form `the verdict is the pairing equation on H(m)`.",
   design="§5 C01"),
 "C05": dict(
   text="BLS serialization: Fr_read_bytes/Fr_star_read_bytes/Fr_write_bytes, Fp_read_bytes/Fp_write_bytes, Fp2_read/write_bytes, E1/E2_read_bytes, E1/E2_write_bytes (C, verified from the clang AST against the ZCash compressed format) and their Go callers readScalarFrStar, readPointE1/E2, writeScalar, writePointE1/E2, decodePrivateKey, decodePublicKey, decodePublicKeyCompressed, prKey/pubKey Encode: "
        "accepted private keys are exactly the 32-byte big-endian scalars in [1, r-1] (else invalidInputsError) and the key holds that scalar; accepted public keys are exactly 96-byte canonical encodings of G2 points (membership check included) and the key holds the decoded point with its identity flag; Encode writes the canonical encoding of the stored value, so decode-then-encode is the identity on accepted strings (canonical-encoding injectivity). "
        "The ZCash coordinate ORDER of G2 (c1 first) is a postcondition that FAILS on the real code: reported as known finding F2 (c0||c1 is written). ECDSA decoders (rawDecodePrivateKey, rawDecodePublicKey, decodePublicKeyCompressed and the DecodeXxx entry points) ARE covered over assumed contracts of crypto/ecdh, btcec, elliptic (accepted sets exact: 32-byte scalars in [1,n-1]; 64 bytes with reduced on-curve coordinates; 33-byte X9.62 compressed points); ECDSA encoders (rawEncode/Encode of both key types, EncodeCompressed over the assumed contract of elliptic.MarshalCompressed), Size and Equals of the ECDSA and BLS key objects are covered: fixed-width big-endian forms for every coordinate incl. 0 (zero padding proved through the two copies). Round trips are LEMMA FUNCTIONS (/repo/lemmas_verif.go, build tag verif, never called): decode(encode(k)) succeeds and returns the same scalar / the same (X, Y) for ECDSA private keys, ECDSA public keys in raw and in compressed form (using: an on-curve reduced point is what decompressing its own compressed form returns - assumed), and BLS private keys; they are proved from the contracts of encoder and decoder in every run. The BLS public-key round trip at object level is not proved (needs: an on-curve G2 point has a canonical encoding; only decode-then-encode is covered).",
   note=TRUSTED + " Big-endian limb conversion (limbs_from_be_bytes / be_bytes_from_limbs), Montgomery conversion and the BLST field/curve primitives are assumed contracts (uninterpreted functions). ECDSA: crypto/elliptic, crypto/ecdh, btcec and math/big are assumed contracts; what is proved is the glue (lengths, padding, which bytes go where, which error class, caches).",
   design="§5 C05"),
 "C16": dict(
   text="BLSVerifyPOP(pk, s) is proved to be Verify(pk.Encode(), s) under the hasher popKMAC whose configuration ghost is the PoP ciphersuite key (global fact, checked immutable), BLSGeneratePOP(sk) to be Sign(sk.PublicKey().Encode()) under the same hasher; identity-flagged keys give false. "
        "Domain separation: NewExpandMsgXOFKMAC128(tag) is proved to key KMAC128 with tag || BLS_SIG_ suite; the lemma string-separation (built from the package's real constants and proved by the solver over the sequence theory) shows that for every tag this key differs from the PoP key; "
        "different keys give different cSHAKE initial states under the assumed injectivity of the KMAC configuration (kmacCfg). The public key identity-flag invariant pkWF is part of the check (see C01).",
   note=TRUSTED + " `A signature under another KMAC key does not verify as a PoP` additionally needs KMAC to behave as a PRF/random oracle: a cryptographic assumption, not a contract. What is proved is that the two hashers are differently keyed for every tag, and that PoP verification is signature verification under the PoP hasher.",
   design="§5 C16"),
 "C17": dict(
   text="SPOCKVerify is proved (Go glue and bls_spock_verify in C, from the clang AST) to return true exactly when both proofs have length 48, are canonical encodings of points in G1 (membership checked on BOTH proofs), neither key is identity-flagged and fp12IsOne(e(p1, -pk2) * e(p2, pk1)); wrong types give errNotBLSKey, all other failures false. "
        "SPOCKProve == Sign and SPOCKVerifyAgainstData == Verify (same postconditions, not-a-BLS-key error exact). Swap symmetry: the syntactic guards are proved symmetric (both lengths, both memberships, both identity flags) and the pairing equation is symmetric by the arithmetic lemma spock-equation-is-symmetric (discrete-log model; identifying the pairing product with that equation is a paper step). The identity-flag invariant pkWF of public key objects (incl. keys made by AggregateBLSPublicKeys / RemoveBLSPublicKeys / decode / computePublicKey) is part of the check.",
   note=TRUSTED + " BLST primitives and the pairing are uninterpreted with algebraic axioms (DESIGN.md §theories).",
   design="§5 C17"),
 "C15": dict(
   text="Every function of random/rand.go that the property names is verified against a contract by weakest-precondition VCs over go/ssa, "
        "discharged by SMT for all inputs and all iterations: UintN (bit-vector mode) result < n, mask is the tight all-ones cover of n-1, the "
        "candidate is exactly the masked fresh bytes (independent of stale buffer bytes), rejection only above max; Permutation returns a "
        "permutation (inductive invariant on the inside-out Fisher-Yates prefix); Samples/Shuffle only call swap(i,j) with i<=j<n; error returns exact. "
        "The probability statement (exact uniformity) is a paper step over these proved structural facts.",
   note=TRUSTED + " Counting arguments (uniform bits mod 2^b are uniform; choice-vector/permutation bijection) are not machine-checked.",
   design="§5 C15"),
 "C14": dict(
   text="NewChacha20PRG, (*chachaCore).Read, (*chachaPRG).Store and RestoreChacha20PRG are verified against contracts stated over an assumed "
        "contract of x/crypto/chacha20 (ghost stream identity = function of the 44 key/nonce bytes, ghost position): Read returns exactly the keystream "
        "bytes [pos, pos+len) on both code paths and keeps bytesCounter == pos; Store is seed||customizer||LE64(counter); Restore rebuilds the same "
        "stream identity and position (block counter + partial block arithmetic, uint32 truncation) for every counter < 2^38; length errors exact. "
        "Proved for all seeds, customizers, read sizes and store points, no bound.",
   note=TRUSTED + " x/crypto/chacha20 (incl. its assembly) is RFC 8439: assumed contract in contracts/trusted/chacha20.spec. Use beyond 2^38 bytes is outside the contract.",
   design="§5 C14"),
 "C13": dict(
   text="Package hash is verified in the purego build configuration (real code selected by the purego tag: xor_generic.go): the SP 800-185 encoders "
        "leftEncode/rightEncode/encodeString/bytepad are proved EQUAL to left_encode/right_encode/encode_string/bytepad byte for byte for every 64-bit value and "
        "every input length (spec functions bebyte/bytelen, with the threshold lemmas proved in the same run); NewKMAC_128 builds bytepad(encode_string(K),168) "
        "over cSHAKE128('KMAC',S) and rejects short keys / negative sizes; ComputeHash is proved to be cSHAKE-read(initBlock || x || right_encode(8L)) on a clone "
        "(the shared state is untouched), SumHash/Reset likewise, over an assumed contract of x/crypto cSHAKE; the Keccak sponge's xorIn/copyOut are proved "
        "lane-exact (little-endian), and the buffer logic (nil sentinel, fill level == (old+len) mod rate, buffer never left full, Reset clears all 25 lanes, padding positions in range) "
        "holds for every length and every buffer state. NOT decided by this check (stated in evidence): that the absorbed state equals the FIPS 202 sponge function of the message (only the buffer/lanes bookkeeping is), keccakF1600. SHA-2 wrappers (sha2.go): ComputeHash returns the digest of exactly `data` whatever was written before (Reset, one Write of the whole input, Sum on a nil prefix), SumHash the digest of what was written, sizes 32/48, over an assumed streaming contract of crypto/sha256 and crypto/sha512 (ghost: kind, absorbed string).",
   note=TRUSTED + " keccakF1600 (assembly or Go) and x/crypto cSHAKE are assumed; in the default build xorIn/copyOut/asBytes use unsafe casts and are assumed to satisfy the contracts proved for their purego variants.",
   design="§5 C13"),
 "C10": dict(
   text="Typestate contracts for plain Feldman VSS and Feldman-VSS-Qual (every method and handler) and for Joint-Feldman (Start, NextTimeout, End, HandleBroadcastMsg, HandlePrivateMsg, ForceDisqualify): exact accept/reject table with the exact error class "
        "(errors.As classes tracked through fmt.Errorf %w), `nothing assigned` on every rejected call (all heaps, incl. the processor's ghost counters, unchanged for objects existing at entry), "
        "NextTimeout accepted exactly twice, End only after both timeouts and always leaving the instance not running, handlers never change the phase; proved as an induction over call histories via the representation invariants "
        "(vssInv / qualInv incl. map-ownership of complaint objects). Joint-Feldman's looping methods: the typestate postconditions (refused while idle / while running / after the second timeout with nothing assigned; both timeouts advance every instance in lock step; Start leaves the joint instance running or, on a failed instance start, idle) are proved with the loop invariant `every instance still satisfies its representation invariant and the instances are pairwise separate` checked on loop entry and ASSUMED preserved across the call on instance i (the per-instance frame argument exceeds the solver budget; listed as an assumption); Start does not re-establish the joint invariant in its postcondition. The constructor does: NewJointFeldman / init are proved to establish the joint invariant (every instance pristine, pairwise separate, sharing the one dkgCommon) with the exact argument validation; the public predicates IsDKGInvalidStateTransitionError / IsInvalidInputsError / IsDKGFailureError (and the other Is...Error functions) are proved to test exactly the error class the contracts speak about (errors.As / errors.Is semantics assumed).",
   note=TRUSTED + " Error-class facts of the typed error constructors are assumed (errors.As semantics). Joint-Feldman loops: preservation of the per-instance invariants across one iteration is assumed (entry is proved). C glue contracts are assumed at the cgo call sites.",
   design="§5 C10"),
 "C08": dict(
   text="Per-instance guarantee/assumption contracts of the DKG: an honest instance broadcasts at most one complaint per dealer (precondition `no own complaint yet` at every call of buildAndBroadcastComplaint) and answers a complaint at most once; "
        "a missing/late/wrong-size/undecodable verification vector, more than t complaints, a wrong-size answer or an unanswered complaint at End disqualify the dealer (postconditions incl. a ghost `visited` set for the map iteration in End); "
        "plain VSS: validKey implies a valid vector and share, End returns keys only if validKey, a vector from the dealer - good or bad - is final (a later one is refused and changes nothing); Joint-Feldman End disqualifies every instance with an unanswered complaint before the keys are summed. Composition across participants (same broadcast view) is a paper step.",
   note=TRUSTED + " Channel assumptions and assume-guarantee composition are not machine-checked; C glue contracts (G2_check_log, G2_vector_read_bytes...) are assumed at the cgo call sites; Joint-Feldman loops: per-instance invariant preservation assumed.",
   design="§5 C08"),
 "C09": dict(
   text="Absence of Go run-time panics (index/slice bounds, nil dereference, nil map write, failed type assertion, division by zero, negative make, explicit panic) and validity of every pointer/length pair handed to C, "
        "for all arguments, for the functions under contract tagged C09: (about 190) package random (all of rand.go, chacha20.go), package hash (purego configuration), plain Feldman VSS, Feldman-VSS-Qual, Joint-Feldman (all methods), the scalar/point/vector (de)serialization wrappers and their C glue, BLS key generation/decoding/encoding, Sign/Verify/POP/SPOCK, aggregation, one-message, many-message and batch verification incl. the C tree recursion, threshold signatures (inspector, participant, reconstruction, key generation, Lagrange glue), ECDSA (sign, verify, format check, key generation, decoders, constructors). "
        "Exported functions outside this list (a few enum String methods, hash-to-curve test helpers, BLST-internal C code) are not covered by this check.",
   note=TRUSTED + " Termination is not proved. BLST-internal C functions are not verified (their `valid` preconditions are proved at the call sites); the glue C functions listed are verified over the clang AST.",
   design="§5 C09"),
}

na_reason = {p: "verifier support for this property is not built yet (engine under construction); not claimed rather than checked with another technique" for p in props}
na_reason["C20"] = ("equivalence of assembly code paths (BLST ADX vs portable, keccak.s vs Go) is outside any contract this family can state on the code; "
                    "the purego Go slice is covered under C13")

m = {
 "version": 1,
 "setup_cmd": "cd /verif/engine && PATH=/opt/veriftools/go1.26.8/bin:$PATH GOTOOLCHAIN=local GOFLAGS=-mod=vendor GOPROXY=off GOSUMDB=off go build -o /verif/bin/vcheck ./cmd/vcheck",
 "hooks": {
   "guard": "verif",
   "enable": "contract files /repo/**/contracts_verif.go carry //go:build verif and contain comments only; /repo/lemmas_verif.go (same tag) holds lemma functions: never-called Go functions composing two functions of the module (decode(encode(k))), whose contracts are the round-trip statements; vcheck loads /repo with -tags verif and parses the //@ lines",
   "baseline_off_cmd": "cd /repo && GOFLAGS=-mod=mod go test -vet=off -count=1 -timeout 25m ./...",
   "source_commits": [],
   "add_only": True},
 "engines": [{"name": "vcheck", "path": "/verif/engine", "serves_properties": sorted(claimed),
              "kind_free_text": "contract-based deductive verifier written for this task: weakest-precondition VC generation over go/ssa (and clang AST for the C glue), contracts in //@ comment files, obligations discharged by z3 4.8/5.1 and cvc5 raced per obligation"}],
 "checks": [],
 "not_applicable": [],
 "notes": "See DESIGN.md. Exit code 2 (no VIOLATION line) means an engine/contract error such as a vacuity canary failing.",
}
import subprocess
try:
    m["hooks"]["source_commits"] = subprocess.check_output(["git", "-C", "/repo", "log", "--format=%H", "--grep=^verif:"], text=True).split()
except Exception:
    pass
for p in props:
    if p in claimed:
        c = claimed[p]
        m["checks"].append({
          "property_id": p,
          "quick_cmd": f"/verif/bin/vcheck check --prop {p} --tier quick",
          "thorough_cmd": f"/verif/bin/vcheck check --prop {p} --tier thorough",
          "evidence_file": f"/verif/evidence/{p}.json",
          "replay_cmd_template": "/verif/bin/vcheck replay {path}",
          "engine": "vcheck",
          "level_claimed": {"category": "proof", "text": c["text"], "design_ref": c["design"]},
          "level_note": c["note"],
          "technique": "contract-based deductive verification: WP verification conditions over go/ssa / clang AST of the real code, discharged by SMT (z3, cvc5)"})
    else:
        m["not_applicable"].append({"property_id": p, "reason": na_reason[p]})
json.dump(m, open('/verif/MANIFEST.json', 'w'), indent=1)
print("claimed:", sorted(claimed), "not applicable:", [x["property_id"] for x in m["not_applicable"]])
