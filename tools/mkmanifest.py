#!/usr/bin/env python3
"""Regenerates /verif/MANIFEST.json from the table below (run after claiming / dropping a property)."""
import json

props = [json.loads(l)['id'] for l in open('/verif/properties.jsonl')]

TRUSTED = ("Trusted base: go/types+go/ssa construction of the verified text, the vcheck VC generator, z3/cvc5; "
           "assumed contracts of external functions are listed per run in the evidence file (assumptions[]).")

claimed = {
 "C15": dict(
   text="Every function of random/rand.go that the property names is verified against a contract by weakest-precondition VCs over go/ssa, "
        "discharged by SMT for all inputs and all iterations: UintN (bit-vector mode) result < n, mask is the tight all-ones cover of n-1, the "
        "candidate is exactly the masked fresh bytes (independent of stale buffer bytes), rejection only above max; Permutation returns a "
        "permutation (inductive invariant on the inside-out Fisher-Yates prefix); Samples/Shuffle only call swap(i,j) with i<=j<n; error returns exact. "
        "The probability statement (exact uniformity) is a paper step over these proved structural facts.",
   note=TRUSTED + " Counting arguments (uniform bits mod 2^b are uniform; choice-vector/permutation bijection) are not machine-checked.",
   design="§5 C15"),
 "C14": dict(
   text="NewChacha20PRG, (*chachaCore).Read, (*chachaPRG).Store and RestoreChacha20PRG are verified against contracts stated over an assumed "
        "contract of x/crypto/chacha20 (ghost stream identity = function of the 44 key/nonce bytes, ghost position): Read returns exactly the keystream "
        "bytes [pos, pos+len) on both code paths and keeps bytesCounter == pos; Store is seed||customizer||LE64(counter); Restore rebuilds the same "
        "stream identity and position (block counter + partial block arithmetic, uint32 truncation) for every counter < 2^38; length errors exact. "
        "Proved for all seeds, customizers, read sizes and store points, no bound.",
   note=TRUSTED + " x/crypto/chacha20 (incl. its assembly) is RFC 8439: assumed contract in contracts/trusted/chacha20.spec. Use beyond 2^38 bytes is outside the contract.",
   design="§5 C14"),
}

na_reason = {p: "verifier support for this property is not built yet (engine under construction); not claimed rather than checked with another technique" for p in props}
na_reason["C20"] = ("equivalence of assembly code paths (BLST ADX vs portable, keccak.s vs Go) is outside any contract this family can state on the code; "
                    "the purego Go slice is covered under C13")

m = {
 "version": 1,
 "setup_cmd": "cd /verif/engine && PATH=/opt/veriftools/go1.26.8/bin:$PATH GOTOOLCHAIN=local GOFLAGS=-mod=vendor GOPROXY=off GOSUMDB=off go build -o /verif/bin/vcheck ./cmd/vcheck",
 "hooks": {
   "guard": "verif",
   "enable": "contract files /repo/**/contracts_verif.go carry //go:build verif and contain comments only; vcheck loads /repo with -tags verif and parses the //@ lines",
   "baseline_off_cmd": "cd /repo && GOFLAGS=-mod=mod go test -vet=off -count=1 -timeout 25m ./...",
   "source_commits": [],
   "add_only": True},
 "engines": [{"name": "vcheck", "path": "/verif/engine", "serves_properties": sorted(claimed),
              "kind_free_text": "contract-based deductive verifier written for this task: weakest-precondition VC generation over go/ssa (and clang AST for the C glue), contracts in //@ comment files, obligations discharged by z3 4.8/5.1 and cvc5 raced per obligation"}],
 "checks": [],
 "not_applicable": [],
 "notes": "See DESIGN.md. Exit code 2 (no VIOLATION line) means an engine/contract error such as a vacuity canary failing.",
}
import subprocess
try:
    m["hooks"]["source_commits"] = subprocess.check_output(["git", "-C", "/repo", "log", "--format=%H", "--grep=^verif:"], text=True).split()
except Exception:
    pass
for p in props:
    if p in claimed:
        c = claimed[p]
        m["checks"].append({
          "property_id": p,
          "quick_cmd": f"/verif/bin/vcheck check --prop {p} --tier quick",
          "thorough_cmd": f"/verif/bin/vcheck check --prop {p} --tier thorough",
          "evidence_file": f"/verif/evidence/{p}.json",
          "replay_cmd_template": "/verif/bin/vcheck replay {path}",
          "engine": "vcheck",
          "level_claimed": {"category": "proof", "text": c["text"], "design_ref": c["design"]},
          "level_note": c["note"],
          "technique": "contract-based deductive verification: WP verification conditions over go/ssa / clang AST of the real code, discharged by SMT (z3, cvc5)"})
    else:
        m["not_applicable"].append({"property_id": p, "reason": na_reason[p]})
json.dump(m, open('/verif/MANIFEST.json', 'w'), indent=1)
print("claimed:", sorted(claimed), "not applicable:", [x["property_id"] for x in m["not_applicable"]])
