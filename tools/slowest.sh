#!/bin/bash
# usage: slowest.sh <regexp> [timeout] — dev helper: the slowest obligations of the matching functions (failures first)
/verif/bin/vcheck verify -v -timeout ${2:-20s} "$1" 2>&1 | grep -E "^  (ok|FAIL|VACUOUS)" | awk '{ if ($1=="ok") print $(NF-1), $(NF-2), $2; else print "999s", $0 }' | sort -rn | head -${3:-6}
