#!/bin/bash
# usage: seedtry.sh <patch.diff> <verify-regex> [lines] [extra args] — dev helper: apply a patch to /repo (working tree may hold
# uncommitted contract edits), run `vcheck verify` on the matching functions, and reverse the patch.
cd /repo || exit 2
git apply "$1" || exit 2
/verif/bin/vcheck verify -timeout 5s $4 "$2" | grep -v "^  ok" | head -${3:-12} | cut -c1-220
git apply -R "$1"
