#!/usr/bin/env python3
"""Rewrites the seeded-change table of DESIGN.md (between the SEEDTABLE markers) from /verif/seeded/*/meta.json."""
import json, glob, os, re
rows = []
# results of the thorough tier's must-fail replay (evidence files), preferred over the development sweep's record
selftest = {}
for f in glob.glob('/verif/evidence/C*.json'):
    try:
        for r in json.load(open(f))['coverage'].get('selftest') or []:
            selftest[r['seed']] = r
    except Exception:
        pass
for d in sorted(glob.glob('/verif/seeded/*/')):
    sid = os.path.basename(d.rstrip('/'))
    m = json.load(open(d + 'meta.json'))
    files = sorted(set(re.findall(r'^\+\+\+ b/(\S+)', open(d + 'patch.diff').read(), re.M)))
    what = (m.get('summary') or ' '.join(m.get('needs_to_manifest', [])[:2])).replace('|', '/').replace('\n', ' ')
    what = re.sub(r'\s+', ' ', what)[:170]
    det = m.get('detected_by')
    st = selftest.get(sid)
    if st:
        if st['result'] == 'caught':
            r = 'caught: `' + st.get('first_failed_obligation', '') + '`'
        elif st['result'] == 'MISSED':
            r = '**missed** (check passes)'
        else:
            r = st['result'][:120]
    elif isinstance(det, dict):
        if det.get('missed'):
            r = '**missed** (check passes)'
        elif det.get('failed_obligations'):
            r = 'caught: `' + det['failed_obligations'][0] + '`' + (f" (+{det['n_failed']-1} more)" if det.get('n_failed', 1) > 1 else '')
        else:
            r = 'engine error: ' + det.get('note', '')[:80]
    else:
        r = str(det)[:120]
    rows.append(f"| {sid} | {', '.join(files)} | {what} | {r} |")
table = "| seed | files | change (from the author's notes) | result of the property's quick check |\n|---|---|---|---|\n" + '\n'.join(rows)
p = '/verif/DESIGN.md'
s = open(p).read()
if 'SEEDTABLE' in s and '<!-- SEEDTABLE-BEGIN -->' not in s:
    s = s.replace('SEEDTABLE', '<!-- SEEDTABLE-BEGIN -->\n<!-- SEEDTABLE-END -->', 1)
s = re.sub(r'<!-- SEEDTABLE-BEGIN -->.*?<!-- SEEDTABLE-END -->', lambda _: '<!-- SEEDTABLE-BEGIN -->\n' + table + '\n<!-- SEEDTABLE-END -->', s, flags=re.S)
open(p, 'w').write(s)
print(len(rows), 'seeds')
