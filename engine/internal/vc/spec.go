package vc

import (
	"bufio"
	"fmt"
	"go/ast"
	"go/parser"
	"os"
	"path/filepath"
	"regexp"
	"sort"
	"strconv"
	"strings"
)

// InvWriter: every function that creates or writes a value of the named struct type must be under contract
// for the listed properties (the representation invariant of the type is stated in those contracts).
type InvWriter struct {
	Type  string
	Props []string
	Pos   string
}

type Clause struct {
	COnly bool // speaks about the C-side representation (struct fields): not used at cgo call sites
	Slow  bool // only checked in the thorough tier (takes longer than the quick per-obligation budget)
	AssumedPreserved bool // loop invariant: checked on entry, ASSUMED (not proved) to be preserved by the body; reported as an assumption
	Long  bool // known to need more solver time than most: its obligations get a four times larger budget
	Label string
	Src   string
	Expr  ast.Expr
	Pos   string
}

type LoopSpec struct {
	Invs       []Clause
	Assigns    []ast.Expr
	HasAssigns bool
	Decreases  ast.Expr
	HavocAll   bool
	Guards     []Clause
	Exits      []Clause
}

type FuncSpec struct {
	Key        string
	IsC        bool
	Mode       Mode
	Props      []string
	Requires   []Clause
	Ensures    []Clause
	Assigns    []ast.Expr
	HasAssigns bool
	AssignsAll bool
	Loops      map[int]*LoopSpec
	PanicsIff  []Clause
	Assumed    []Clause // postconditions about ghost state that callers may assume but the body check cannot establish
	Inline     bool
	Trusted    bool
	Pure       bool
	Params     []string
	File       string
	Line       int
	Used       bool
	TouchesMaps bool
	DeadReturns map[int]bool // returns (by ordinal) that are unreachable under the callees' contracts
	NoWrap     bool // C: unsigned + and * must not wrap around either (obligations `nowrap`)
	NoBody     bool // C contract used at call sites only (body is BLST / not translated)
	Tags       string // extra build tags of the configuration in which the body is verified
	RecvInv    bool     // the requires clauses are the representation invariant of the receiver: assumed where the method is reached through an interface
	Unfold     []string // chunk functions whose byte-level definition is available in the body proof
}

type Pred struct {
	Name   string
	Params []string
	Body   ast.Expr
	Src    string
}

type GhostDecl struct {
	TypeName string // e.g. "golang.org/x/crypto/chacha20.Cipher"
	Field    string
	TypeSrc  string // "int", "uint64", "bool"
}

type SpecDB struct {
	Funcs  map[string]*FuncSpec
	Preds  map[string]*Pred
	Ghosts []GhostDecl
	HeapTypes []string // named struct types that only ever live in their own heap objects
	InvWriters []InvWriter
	Guards     map[string]string // "pkg.T.field" -> name of the lock field of T guarding it ("" = immutable after construction)
	Globals []Clause   // facts about package-level variables assumed at every function entry
	GlobalPkg []string
	Errors []string
}

func NewSpecDB() *SpecDB {
	return &SpecDB{Funcs: map[string]*FuncSpec{}, Preds: map[string]*Pred{}}
}

var reRecv = regexp.MustCompile(`^\((\*?)([A-Za-z_]\w*)\)\.(.+)$`)
var reIdent = regexp.MustCompile(`^[A-Za-z_][\w$]*$`)

func qualifyKey(key, pkg string) string {
	if pkg == "" {
		return key
	}
	if m := reRecv.FindStringSubmatch(key); m != nil {
		return "(" + m[1] + pkg + "." + m[2] + ")." + m[3]
	}
	if reIdent.MatchString(key) {
		return pkg + "." + key
	}
	return key
}

// LoadFile parses one contract file. pkg is the short package name keys are relative to ("" for none).
func (db *SpecDB) LoadFile(path string, pkg string) error {
	f, err := os.Open(path)
	if err != nil {
		return err
	}
	defer f.Close()
	sc := bufio.NewScanner(f)
	sc.Buffer(make([]byte, 1<<20), 1<<20)
	type rawClause struct {
		line int
		text string
	}
	var clauses []rawClause
	ln := 0
	for sc.Scan() {
		ln++
		line := sc.Text()
		t := strings.TrimSpace(line)
		if !strings.HasPrefix(t, "//@") {
			continue
		}
		body := t[3:]
		if strings.TrimSpace(body) == "" {
			continue
		}
		// continuation: "//@" followed by at least 3 spaces
		if strings.HasPrefix(body, "   ") && len(clauses) > 0 {
			clauses[len(clauses)-1].text += " " + strings.TrimSpace(body)
			continue
		}
		clauses = append(clauses, rawClause{ln, strings.TrimSpace(body)})
	}
	var cur *FuncSpec
	for _, rc := range clauses {
		text := rc.text
		// strip trailing comment " // ..."
		if i := strings.Index(text, " // "); i >= 0 {
			text = strings.TrimSpace(text[:i])
		}
		word, rest := splitWord(text)
		pos := fmt.Sprintf("%s:%d", filepath.Base(path), rc.line)
		fail := func(format string, a ...any) {
			db.Errors = append(db.Errors, pos+": "+fmt.Sprintf(format, a...))
		}
		switch word {
		case "func", "cfunc", "extern":
			key, opts := splitFuncHead(rest)
			if word == "func" {
				key = qualifyKey(key, pkg)
			}
			if word == "cfunc" {
				key = "C." + key
			}
			if _, dup := db.Funcs[key]; dup {
				fail("duplicate contract for %s", key)
			}
			cur = &FuncSpec{Key: key, IsC: word == "cfunc", Loops: map[int]*LoopSpec{}, File: path, Line: rc.line}
			if word == "extern" {
				cur.Trusted = true
			}
			db.Funcs[key] = cur
			ws := strings.Fields(opts)
			for i := 0; i < len(ws); i++ {
				switch ws[i] {
				case "mode":
					i++
					if i < len(ws) {
						cur.Mode = Mode{BV: ws[i] == "bv"}
					}
				case "props":
					for i+1 < len(ws) && strings.HasPrefix(ws[i+1], "C") {
						i++
						cur.Props = append(cur.Props, ws[i])
					}
				case "tags":
					i++
					if i < len(ws) {
						cur.Tags = ws[i]
					}
				case "nowrap":
					cur.NoWrap = true
				case "nobody":
					cur.NoBody = true
				case "recvinv":
					cur.RecvInv = true
				case "inline":
					cur.Inline = true
				case "trusted":
					cur.Trusted = true
				case "pure":
					cur.Pure = true
				case "params":
					for i+1 < len(ws) {
						i++
						cur.Params = append(cur.Params, ws[i])
					}
				default:
					if strings.HasPrefix(ws[i], "unfold=") {
						cur.Unfold = append(cur.Unfold, strings.Split(strings.TrimPrefix(ws[i], "unfold="), ",")...)
						continue
					}
					fail("unknown option %q", ws[i])
				}
			}
		case "assumes":
			if cur == nil {
				fail("assumes outside func")
				continue
			}
			c, err := parseClause(rest, pos)
			if err != nil {
				fail("%v", err)
				continue
			}
			cur.Assumed = append(cur.Assumed, c)
		case "requires", "ensures", "panics-iff":
			if cur == nil {
				fail("%s outside func", word)
				continue
			}
			c, err := parseClause(rest, pos)
			if err != nil {
				fail("%v", err)
				continue
			}
			switch word {
			case "requires":
				cur.Requires = append(cur.Requires, c)
			case "ensures":
				cur.Ensures = append(cur.Ensures, c)
			default:
				cur.PanicsIff = append(cur.PanicsIff, c)
			}
		case "assigns":
			if cur == nil {
				fail("assigns outside func")
				continue
			}
			cur.HasAssigns = true
			if strings.TrimSpace(rest) == "everything" {
				cur.AssignsAll = true
				continue
			}
			es, err := parseExprList(rest)
			if err != nil {
				fail("%v", err)
				continue
			}
			cur.Assigns = append(cur.Assigns, es...)
		case "loop":
			if cur == nil {
				fail("loop outside func")
				continue
			}
			nstr, r2 := splitWord(rest)
			n, err := strconv.Atoi(nstr)
			if err != nil {
				fail("loop ordinal: %v", err)
				continue
			}
			ls := cur.Loops[n]
			if ls == nil {
				ls = &LoopSpec{}
				cur.Loops[n] = ls
			}
			kind, r3 := splitWord(r2)
			switch kind {
			case "invariant":
				c, err := parseClause(r3, pos)
				if err != nil {
					fail("%v", err)
					continue
				}
				ls.Invs = append(ls.Invs, c)
			case "assigns":
				ls.HasAssigns = true
				if strings.TrimSpace(r3) == "everything" {
					ls.HavocAll = true
					continue
				}
				es, err := parseExprList(r3)
				if err != nil {
					fail("%v", err)
					continue
				}
				ls.Assigns = append(ls.Assigns, es...)
			case "guard", "exit":
				c, err := parseClause(r3, pos)
				if err != nil {
					fail("%v", err)
					continue
				}
				if kind == "guard" {
					ls.Guards = append(ls.Guards, c)
				} else {
					ls.Exits = append(ls.Exits, c)
				}
			case "decreases":
				e, err := parseSpecExpr(r3)
				if err != nil {
					fail("%v", err)
					continue
				}
				ls.Decreases = e
			default:
				fail("unknown loop clause %q", kind)
			}
		case "pred":
			// pred name(a, b) = expr
			i := strings.Index(rest, "=")
			if i < 0 {
				fail("pred without =")
				continue
			}
			head := strings.TrimSpace(rest[:i])
			bodySrc := strings.TrimSpace(rest[i+1:])
			he, err := parser.ParseExpr(head)
			if err != nil {
				fail("pred head: %v", err)
				continue
			}
			call, ok := he.(*ast.CallExpr)
			if !ok {
				fail("pred head must be name(params)")
				continue
			}
			p := &Pred{Name: call.Fun.(*ast.Ident).Name, Src: bodySrc}
			for _, a := range call.Args {
				p.Params = append(p.Params, a.(*ast.Ident).Name)
			}
			p.Body, err = parseSpecExpr(bodySrc)
			if err != nil {
				fail("pred body: %v", err)
				continue
			}
			db.Preds[p.Name] = p
		case "dead-return":
			if cur == nil {
				fail("dead-return outside func")
				continue
			}
			nstr, _ := splitWord(rest)
			n, err := strconv.Atoi(nstr)
			if err != nil {
				fail("dead-return ordinal: %v", err)
				continue
			}
			if cur.DeadReturns == nil {
				cur.DeadReturns = map[int]bool{}
			}
			cur.DeadReturns[n] = true
		case "guarded", "immutable":
			// guarded T.f by lockField   |   immutable T.f
			ws := strings.Fields(rest)
			if (word == "guarded" && (len(ws) != 3 || ws[1] != "by")) || (word == "immutable" && len(ws) != 1) {
				fail("guarded T.f by lock | immutable T.f")
				continue
			}
			tn := ws[0]
			if strings.Count(tn, ".") < 2 && pkg != "" {
				tn = pkg + "." + tn
			}
			if db.Guards == nil {
				db.Guards = map[string]string{}
			}
			if word == "guarded" {
				db.Guards[tn] = ws[2]
			} else {
				db.Guards[tn] = ""
			}
		case "invariant-writers":
			ws := strings.Fields(rest)
			if len(ws) < 3 || ws[1] != "props" {
				fail("invariant-writers <Type> props <Cxx>...")
				continue
			}
			tn := ws[0]
			if !strings.Contains(tn, ".") && pkg != "" {
				tn = pkg + "." + tn
			}
			db.InvWriters = append(db.InvWriters, InvWriter{Type: tn, Props: ws[2:], Pos: pos})
		case "heaptype":
			tn := strings.TrimSpace(rest)
			if !strings.Contains(tn, ".") && pkg != "" {
				tn = pkg + "." + tn
			}
			db.HeapTypes = append(db.HeapTypes, tn)
		case "global":
			c, err := parseClause(rest, pos)
			if err != nil {
				fail("%v", err)
				continue
			}
			db.Globals = append(db.Globals, c)
			db.GlobalPkg = append(db.GlobalPkg, pkg)
		case "ghost":
			// ghost field <TypeName>.<field> <type>
			ws := strings.Fields(rest)
			if len(ws) != 3 || ws[0] != "field" {
				fail("ghost field T.f type")
				continue
			}
			i := strings.LastIndex(ws[1], ".")
			tn := ws[1][:i]
			if !strings.Contains(tn, ".") && pkg != "" {
				tn = pkg + "." + tn
			}
			db.Ghosts = append(db.Ghosts, GhostDecl{TypeName: tn, Field: ws[1][i+1:], TypeSrc: ws[2]})
		default:
			fail("unknown directive %q", word)
		}
	}
	return nil
}

func splitWord(s string) (string, string) {
	s = strings.TrimSpace(s)
	i := strings.IndexAny(s, " \t")
	if i < 0 {
		return s, ""
	}
	return s[:i], strings.TrimSpace(s[i+1:])
}

// splitFuncHead separates the function key (which may contain parentheses but no spaces) from options.
func splitFuncHead(s string) (string, string) {
	return splitWord(s)
}

// longLabels: labels of clauses marked `long` (the obligations generated from them get a larger solver budget)
var longLabels = map[string]bool{}

func parseClause(s, pos string) (Clause, error) {
	s = strings.TrimSpace(s)
	c := Clause{Pos: pos}
	if strings.HasPrefix(s, "[") {
		j := strings.Index(s, "]")
		c.Label = s[1:j]
		if strings.HasSuffix(c.Label, " c-only") {
			c.Label = strings.TrimSuffix(c.Label, " c-only")
			c.COnly = true
		}
		if strings.HasSuffix(c.Label, " assumed-preserved") {
			c.Label = strings.TrimSuffix(c.Label, " assumed-preserved")
			c.AssumedPreserved = true
		}
		if strings.HasSuffix(c.Label, " long") {
			c.Label = strings.TrimSuffix(c.Label, " long")
			c.Long = true
			longLabels[c.Label] = true
		}
		if strings.HasSuffix(c.Label, " slow") {
			c.Label = strings.TrimSuffix(c.Label, " slow")
			c.Slow = true
		}
		s = strings.TrimSpace(s[j+1:])
	}
	c.Src = s
	e, err := parseSpecExpr(s)
	if err != nil {
		return c, fmt.Errorf("%s: %v in %q", pos, err, s)
	}
	c.Expr = e
	return c, nil
}

func parseExprList(s string) ([]ast.Expr, error) {
	s = strings.TrimSpace(s)
	if s == "nothing" || s == `\nothing` {
		return nil, nil
	}
	var out []ast.Expr
	for _, p := range splitTop(s, ",") {
		e, err := parseSpecExpr(p)
		if err != nil {
			return nil, fmt.Errorf("%v in %q", err, p)
		}
		out = append(out, e)
	}
	return out, nil
}

// parseSpecExpr parses the contract expression language: Go expressions plus ==> and <==>.
func parseSpecExpr(s string) (ast.Expr, error) {
	r := rewriteImp(s)
	e, err := parser.ParseExpr(r)
	if err != nil {
		return nil, fmt.Errorf("%v (after rewriting to %q)", err, r)
	}
	return e, nil
}

// splitTop splits s at occurrences of sep at parenthesis/bracket depth 0.
func splitTop(s string, sep string) []string {
	var out []string
	depth := 0
	last := 0
	inStr := false
	for i := 0; i < len(s); i++ {
		c := s[i]
		if inStr {
			if c == '\\' {
				i++
			} else if c == '"' {
				inStr = false
			}
			continue
		}
		switch c {
		case '"':
			inStr = true
		case '(', '[', '{':
			depth++
		case ')', ']', '}':
			depth--
		}
		if depth == 0 && strings.HasPrefix(s[i:], sep) {
			// do not split "<==>" when looking for "==>"
			if sep == "==>" && i > 0 && s[i-1] == '<' {
				continue
			}
			out = append(out, s[last:i])
			last = i + len(sep)
			i += len(sep) - 1
		}
	}
	out = append(out, s[last:])
	return out
}

func rewriteImp(s string) string {
	s = strings.TrimSpace(s)
	if !strings.Contains(s, "==>") {
		return s
	}
	if ps := splitTop(s, "<==>"); len(ps) > 1 {
		r := rewriteImp(ps[len(ps)-1])
		for i := len(ps) - 2; i >= 0; i-- {
			r = "iff(" + rewriteImp(ps[i]) + ", " + r + ")"
		}
		return r
	}
	if ps := splitTop(s, "==>"); len(ps) > 1 {
		r := rewriteImp(ps[len(ps)-1])
		for i := len(ps) - 2; i >= 0; i-- {
			r = "implies(" + rewriteImp(ps[i]) + ", " + r + ")"
		}
		return r
	}
	// recurse into top-level parenthesised groups
	var b strings.Builder
	depth := 0
	start := -1
	for i := 0; i < len(s); i++ {
		c := s[i]
		if c == '(' || c == '[' {
			if depth == 0 {
				start = i
			}
			depth++
		} else if c == ')' || c == ']' {
			depth--
			if depth == 0 {
				inner := s[start+1 : i]
				parts := splitTop(inner, ",")
				for k := range parts {
					parts[k] = rewriteImp(parts[k])
				}
				b.WriteByte(s[start])
				b.WriteString(strings.Join(parts, ", "))
				b.WriteByte(c)
				start = -1
				continue
			}
		}
		if depth == 0 {
			b.WriteByte(c)
		}
	}
	return b.String()
}

func (db *SpecDB) SortedKeys() []string {
	var ks []string
	for k := range db.Funcs {
		ks = append(ks, k)
	}
	sort.Strings(ks)
	return ks
}
