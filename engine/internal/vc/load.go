package vc

import (
	"fmt"
	"go/types"
	"os"
	"path/filepath"
	"regexp"
	"sort"
	"strings"

	"golang.org/x/tools/go/packages"
	"golang.org/x/tools/go/ssa"
	"golang.org/x/tools/go/ssa/ssautil"
)

// GoEnv is the environment used for every go subprocess (go list inside packages.Load, go test replays).
func GoEnv() []string {
	env := []string{}
	for _, e := range os.Environ() {
		k := strings.SplitN(e, "=", 2)[0]
		switch k {
		case "PATH", "GOTOOLCHAIN", "GOFLAGS", "GOPROXY", "GOSUMDB", "CGO_ENABLED", "GOWORK":
			continue
		}
		env = append(env, e)
	}
	env = append(env,
		"PATH=/opt/veriftools/go1.26.8/bin:"+os.Getenv("PATH"),
		"GOTOOLCHAIN=local", "GOFLAGS=-mod=mod", "GOPROXY=off", "GOSUMDB=off", "CGO_ENABLED=1", "GOWORK=off")
	return env
}

// Program is the loaded repository: type-checked packages and their SSA.
type Program struct {
	Dir   string
	Pkgs  []*packages.Package
	SSA   *ssa.Program
	SPkgs map[string]*ssa.Package // by package path
	Funcs map[string]*ssa.Function
	Tags  string
	CParams map[string][]string // C function name -> parameter names
	CEnums  map[string]int64    // enumerators of the C headers
}

const ModPath = "github.com/onflow/crypto"

// Load type-checks and builds SSA for the three packages of the module with the given build tags.
func Load(dir string, tags string) (*Program, error) {
	cfg := &packages.Config{
		Mode: packages.NeedName | packages.NeedFiles | packages.NeedCompiledGoFiles | packages.NeedImports |
			packages.NeedDeps | packages.NeedTypes | packages.NeedSyntax | packages.NeedTypesInfo | packages.NeedTypesSizes,
		Dir:        dir,
		Env:        GoEnv(),
		BuildFlags: []string{"-tags=" + tags},
	}
	pkgs, err := packages.Load(cfg, ".", "./hash", "./random")
	if err != nil {
		return nil, err
	}
	nerr := 0
	for _, p := range pkgs {
		for _, e := range p.Errors {
			fmt.Fprintf(os.Stderr, "load: %s: %v\n", p.PkgPath, e)
			nerr++
		}
	}
	if nerr > 0 {
		return nil, fmt.Errorf("%d load errors", nerr)
	}
	prog, spkgs := ssautil.AllPackages(pkgs, ssa.InstantiateGenerics|ssa.GlobalDebug)
	prog.Build()
	P := &Program{Dir: dir, Pkgs: pkgs, SSA: prog, SPkgs: map[string]*ssa.Package{}, Funcs: map[string]*ssa.Function{}, Tags: tags}
	for i, sp := range spkgs {
		if sp == nil {
			return nil, fmt.Errorf("no ssa for %s", pkgs[i].PkgPath)
		}
		P.SPkgs[pkgs[i].PkgPath] = sp
	}
	// opaque cgo value types: one cell holding a spec-level value
	for _, sp := range P.SPkgs {
		for name, m := range sp.Members {
			if tm, ok := m.(*ssa.Type); ok && opaqueNames[name] {
				if st, ok := tm.Type().Underlying().(*types.Struct); ok {
					OpaqueStructs[st] = true
				}
			}
		}
	}
	P.CParams = parseCPrototypes(dir)
	P.CEnums = parseCEnums(dir)
	// enumerate functions: members, methods of named types (T and *T), anonymous functions
	for _, sp := range P.SPkgs {
		for _, m := range sp.Members {
			switch m := m.(type) {
			case *ssa.Function:
				P.addFunc(m)
			case *ssa.Type:
				t := m.Type()
				for _, tt := range []types.Type{t, types.NewPointer(t)} {
					ms := prog.MethodSets.MethodSet(tt)
					for i := 0; i < ms.Len(); i++ {
						f := prog.MethodValue(ms.At(i))
						if f != nil && f.Pkg == sp && f.Synthetic == "" {
							P.addFunc(f)
						}
					}
				}
			}
		}
	}
	return P, nil
}

func (P *Program) addFunc(f *ssa.Function) {
	k := FuncKey(f)
	if _, ok := P.Funcs[k]; ok {
		return
	}
	P.Funcs[k] = f
	for _, a := range f.AnonFuncs {
		P.addFunc(a)
	}
}

// FuncKey is the stable name of a function used in contract files:
// pkgpath.Func, (*pkgpath.T).Method, (pkgpath.T).Method, with the module path
// abbreviated: "github.com/onflow/crypto" -> "crypto".
func FuncKey(f *ssa.Function) string {
	return ShortName(f.String())
}

func ShortName(s string) string {
	s = strings.ReplaceAll(s, ModPath+"/", "")
	s = strings.ReplaceAll(s, ModPath, "crypto")
	return s
}

func (P *Program) SortedFuncKeys() []string {
	ks := make([]string, 0, len(P.Funcs))
	for k := range P.Funcs {
		ks = append(ks, k)
	}
	sort.Strings(ks)
	return ks
}


var reCProto = regexp.MustCompile(`(?m)^(?:static\s+|extern\s+|inline\s+)*[A-Za-z_][\w\s\*]*?[\s\*]([A-Za-z_]\w*)\s*\(([^;{)]*)\)\s*[;{]`)

// parseCPrototypes extracts parameter names of the C functions declared or defined in the repository's own C files.
func parseCPrototypes(dir string) map[string][]string {
	out := map[string][]string{}
	files, _ := filepath.Glob(filepath.Join(dir, "*.[ch]"))
	for _, f := range files {
		b, err := os.ReadFile(f)
		if err != nil {
			continue
		}
		for _, m := range reCProto.FindAllStringSubmatch(string(b), -1) {
			name := m[1]
			if name == "if" || name == "while" || name == "for" || name == "switch" || name == "return" || name == "sizeof" {
				continue
			}
			var names []string
			ok := true
			params := strings.TrimSpace(m[2])
			if params != "" && params != "void" {
				for _, prm := range strings.Split(params, ",") {
					prm = strings.TrimSpace(prm)
					prm = strings.TrimSuffix(prm, "[]")
					if i := strings.Index(prm, "["); i >= 0 {
						prm = prm[:i]
					}
					j := len(prm)
					for j > 0 && (prm[j-1] == '_' || prm[j-1] >= '0' && prm[j-1] <= '9' || prm[j-1] >= 'a' && prm[j-1] <= 'z' || prm[j-1] >= 'A' && prm[j-1] <= 'Z') {
						j--
					}
					if j == len(prm) || j == 0 {
						ok = false
						break
					}
					names = append(names, prm[j:])
				}
			}
			if ok {
				if old, dup := out[name]; !dup || len(old) == 0 {
					out[name] = names
				}
			}
		}
	}
	return out
}
