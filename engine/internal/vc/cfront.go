package vc

import (
	"bytes"
	"encoding/json"
	"fmt"
	"go/token"
	"go/types"
	"math/big"
	"os"
	"os/exec"
	"path/filepath"
	"regexp"
	"sort"
	"strconv"
	"strings"
)

// ---------------------------------------------------------------------------------------------
// C front-end: the verified text is clang's own AST of the function definition (JSON dump), obtained
// on every run with the -I/-D flags of the #cgo CFLAGS lines of bls12381_utils.go.

type cType struct {
	QualType  string `json:"qualType"`
	Desugared string `json:"desugaredQualType"`
}

type cNode struct {
	Kind      string          `json:"kind"`
	Name      string          `json:"name"`
	Opcode    string          `json:"opcode"`
	Value     json.RawMessage `json:"value"`
	CastKind  string          `json:"castKind"`
	IsPostfix bool            `json:"isPostfix"`
	IsArrow   bool            `json:"isArrow"`
	Type      *cType          `json:"type"`
	ArgType   *cType          `json:"argType"`
	Ref       *struct {
		Kind string `json:"kind"`
		Name string `json:"name"`
		Type *cType `json:"type"`
	} `json:"referencedDecl"`
	Inner []*cNode `json:"inner"`
	Range struct {
		Begin struct {
			Line         int `json:"line"`
			ExpansionLoc struct {
				Line int `json:"line"`
			} `json:"expansionLoc"`
			SpellingLoc struct {
				Line int `json:"line"`
			} `json:"spellingLoc"`
		} `json:"begin"`
	} `json:"range"`
	Loc struct {
		Line int    `json:"line"`
		File string `json:"file"`
	} `json:"loc"`
	StorageClass string `json:"storageClass"`
}

func (n *cNode) line() int {
	if n.Range.Begin.Line > 0 {
		return n.Range.Begin.Line
	}
	if n.Range.Begin.ExpansionLoc.Line > 0 {
		return n.Range.Begin.ExpansionLoc.Line
	}
	return n.Loc.Line
}

// CFunc is one C function definition of the repository.
type CFunc struct {
	Name   string
	File   string
	Line   int
	Node   *cNode
	Params []*cNode
	Body   *cNode
}

var cFiles = []string{"bls12381_utils.c", "bls_core.c", "dkg_core.c", "bls_thresholdsign_core.c"}

// cFlags returns the preprocessor flags of the cgo build (parsed from bls12381_utils.go).
func cFlags(dir string) []string {
	flags := []string{"-I" + dir, "-I" + filepath.Join(dir, "blst_src"), "-I" + filepath.Join(dir, "blst_src/build")}
	b, err := os.ReadFile(filepath.Join(dir, "bls12381_utils.go"))
	if err == nil {
		re := regexp.MustCompile(`(?m)^// #cgo (amd64 )?CFLAGS: (.*)$`)
		for _, m := range re.FindAllStringSubmatch(string(b), -1) {
			for _, f := range strings.Fields(m[2]) {
				if strings.HasPrefix(f, "-D") || strings.HasPrefix(f, "-m") {
					flags = append(flags, f)
				}
			}
		}
	}
	return flags
}

// findCFile returns the repository C file defining function name.
func findCFile(dir, name string) string {
	re := regexp.MustCompile(`(?m)^[A-Za-z_][\w \t\*]*[ \*]` + regexp.QuoteMeta(name) + `\s*\([^;{]*\)\s*\{`)
	for _, f := range cFiles {
		b, err := os.ReadFile(filepath.Join(dir, f))
		if err == nil && re.Match(b) {
			return f
		}
	}
	return ""
}

// LoadCFunc dumps and parses the definition of one C function.
func LoadCFunc(dir, name string) (*CFunc, error) {
	file := findCFile(dir, name)
	if file == "" {
		return nil, fmt.Errorf("no definition of C function %s in %v", name, cFiles)
	}
	args := append([]string{"-fsyntax-only", "-Xclang", "-ast-dump=json", "-Xclang", "-ast-dump-filter=" + name}, cFlags(dir)...)
	args = append(args, filepath.Join(dir, file))
	cmd := exec.Command("clang-14", args...)
	var out, errb bytes.Buffer
	cmd.Stdout = &out
	cmd.Stderr = &errb
	if err := cmd.Run(); err != nil && out.Len() == 0 {
		return nil, fmt.Errorf("clang: %v: %s", err, trunc(errb.String(), 400))
	}
	dec := json.NewDecoder(&out)
	for dec.More() {
		var n cNode
		if err := dec.Decode(&n); err != nil {
			return nil, fmt.Errorf("clang ast of %s: %v", name, err)
		}
		if n.Kind != "FunctionDecl" || n.Name != name {
			continue
		}
		f := &CFunc{Name: name, File: file, Node: &n, Line: n.line()}
		for _, c := range n.Inner {
			switch c.Kind {
			case "ParmVarDecl":
				f.Params = append(f.Params, c)
			case "CompoundStmt":
				f.Body = c
			}
		}
		if f.Body != nil {
			return f, nil
		}
	}
	return nil, fmt.Errorf("no definition of %s in the AST dump of %s", name, file)
}

// ---------------------------------------------------------------------------------------------
// C types as synthetic go/types (so that the contract language and the memory model are shared)

var cPkg = types.NewPackage("C", "C")

func cNamed(name string, under types.Type) *types.Named {
	return types.NewNamed(types.NewTypeName(token.NoPos, cPkg, name, nil), under, nil)
}

func cOpaque(name string) *types.Named {
	st := types.NewStruct([]*types.Var{types.NewField(token.NoPos, cPkg, "l", types.NewArray(types.Typ[types.Uint64], 1), false)}, nil)
	OpaqueStructs[st] = true
	return cNamed(name, st)
}

var (
	ctFr   = cOpaque("Fr")
	ctFp   = cOpaque("Fp")
	ctFp12 = cOpaque("Fp12")
	ctFp2  = cNamed("Fp2", types.NewArray(ctFp, 2))
	ctE1   = cNamed("E1", types.NewStruct([]*types.Var{
		types.NewField(token.NoPos, cPkg, "x", ctFp, false),
		types.NewField(token.NoPos, cPkg, "y", ctFp, false),
		types.NewField(token.NoPos, cPkg, "z", ctFp, false)}, nil))
	ctE2 = cNamed("E2", types.NewStruct([]*types.Var{
		types.NewField(token.NoPos, cPkg, "x", ctFp2, false),
		types.NewField(token.NoPos, cPkg, "y", ctFp2, false),
		types.NewField(token.NoPos, cPkg, "z", ctFp2, false)}, nil))
	ctE1aff = cNamed("E1affine", types.NewStruct([]*types.Var{
		types.NewField(token.NoPos, cPkg, "x", ctFp, false),
		types.NewField(token.NoPos, cPkg, "y", ctFp, false)}, nil))
	ctE2aff = cNamed("E2affine", types.NewStruct([]*types.Var{
		types.NewField(token.NoPos, cPkg, "x", ctFp2, false),
		types.NewField(token.NoPos, cPkg, "y", ctFp2, false)}, nil))
	ctError = cNamed("ERROR", types.Typ[types.Uint32])
	ctVoid  = types.NewTuple()
)

var cBaseTypes = map[string]types.Type{
	"byte": types.Typ[types.Uint8], "uint8_t": types.Typ[types.Uint8], "unsigned char": types.Typ[types.Uint8], "char": types.Typ[types.Int8],
	"int": types.Typ[types.Int32], "unsigned int": types.Typ[types.Uint32], "uint32_t": types.Typ[types.Uint32], "unsigned": types.Typ[types.Uint32],
	"limb_t": types.Typ[types.Uint64], "uint64_t": types.Typ[types.Uint64], "size_t": types.Typ[types.Uint64], "unsigned long": types.Typ[types.Uint64], "unsigned long long": types.Typ[types.Uint64], "long long": types.Typ[types.Int64],
	"long": types.Typ[types.Int64], "uptr_t": types.Typ[types.Uint64], "bool_t": types.Typ[types.Uint64],
	"bool": types.Typ[types.Bool], "_Bool": types.Typ[types.Bool],
	"ERROR": ctError, "Fr": ctFr, "Fp": ctFp, "Fp2": ctFp2, "Fp12": ctFp12, "E1": ctE1, "E2": ctE2,
	"void": ctVoid, "pow256": types.NewArray(types.Typ[types.Uint8], 32),
	"vec384": ctFp, "vec256": ctFr, "vec384x": ctFp2,
	// BLST's own names of the point types (the repository's E1/E2 are these structs)
	"POINTonE1": ctE1, "POINTonE2": ctE2, "POINTonE1_affine": ctE1aff, "POINTonE2_affine": ctE2aff,
}

var cUserStructs = map[string]types.Type{}

// the aggregation-tree node of bls_core.c: struct st_node { E1 *sig; E2 *pk; struct st_node *left, *right; }
func init() {
	n := types.NewNamed(types.NewTypeName(token.NoPos, cPkg, "node", nil), nil, nil)
	n.SetUnderlying(types.NewStruct([]*types.Var{
		types.NewField(token.NoPos, cPkg, "sig", types.NewPointer(ctE1), false),
		types.NewField(token.NoPos, cPkg, "pk", types.NewPointer(ctE2), false),
		types.NewField(token.NoPos, cPkg, "left", types.NewPointer(n), false),
		types.NewField(token.NoPos, cPkg, "right", types.NewPointer(n), false)}, nil))
	cUserStructs["node"] = n
	cUserStructs["st_node"] = n
}

var reCArr = regexp.MustCompile(`^(.*?)\s*\[(\d*)\]$`)

func parseCType(q string) (types.Type, error) {
	q = strings.TrimSpace(q)
	for _, w := range []string{"const ", "volatile ", "struct ", "restrict "} {
		q = strings.ReplaceAll(q, w, "")
	}
	q = strings.ReplaceAll(q, " const", "")
	q = strings.TrimSpace(q)
	if strings.HasSuffix(q, "*") {
		el, err := parseCType(strings.TrimSuffix(q, "*"))
		if err != nil {
			return nil, err
		}
		if el == ctVoid {
			el = types.Typ[types.Uint8]
		}
		return types.NewPointer(el), nil
	}
	if m := reCArr.FindStringSubmatch(q); m != nil {
		el, err := parseCType(m[1])
		if err != nil {
			return nil, err
		}
		if m[2] == "" {
			return types.NewPointer(el), nil
		}
		n, _ := strconv.Atoi(m[2])
		return types.NewArray(el, int64(n)), nil
	}
	if t, ok := cBaseTypes[q]; ok {
		return t, nil
	}
	if t, ok := cUserStructs[q]; ok {
		return t, nil
	}
	return nil, fmt.Errorf("unsupported C type %q", q)
}

// parseCEnums reads the enumerators of the repository headers (name -> value).
func parseCEnums(dir string) map[string]int64 {
	out := map[string]int64{}
	files, _ := filepath.Glob(filepath.Join(dir, "*.h"))
	cs, _ := filepath.Glob(filepath.Join(dir, "*.c"))
	files = append(files, cs...)
	re := regexp.MustCompile(`(?s)typedef\s+enum\s*\{(.*?)\}`)
	for _, f := range files {
		b, err := os.ReadFile(f)
		if err != nil {
			continue
		}
		for _, m := range re.FindAllStringSubmatch(string(b), -1) {
			next := int64(0)
			for _, e := range strings.Split(m[1], ",") {
				e = strings.TrimSpace(regexp.MustCompile(`//.*`).ReplaceAllString(e, ""))
				if e == "" {
					continue
				}
				name := e
				if i := strings.Index(e, "="); i >= 0 {
					name = strings.TrimSpace(e[:i])
					v, err := strconv.ParseInt(strings.TrimSpace(e[i+1:]), 0, 64)
					if err == nil {
						next = v
					}
				}
				out[name] = next
				next++
			}
		}
	}
	return out
}

// ---------------------------------------------------------------------------------------------
// symbolic execution of the structured AST

type cVal struct {
	S      string     // term (rvalue) or address (lvalue)
	T      types.Type // C type
	Const  *big.Int   // value if a compile-time integer constant
	direct bool       // (locals table only) S is the value itself, not an address
}

type cFlow struct {
	pc string
	st *State
}

type cLoopCtx struct {
	breaks    []cFlow
	continues []cFlow
}

type CGen struct {
	*Gen
	cf      *CFunc
	enums   map[string]int64
	locals  []map[string]cVal // scopes: name -> address of the variable's object (cVal.S) and its type
	params  map[string]string // parameter name -> entry value term
	returns []struct {
		cFlow
		val  string
		line int
	}
	labels   map[string][]cFlow
	loops    []*cLoopCtx
	nloop    int
	retType  types.Type
	line     int
	globals  map[string]string
	allLocal map[string]cVal // every local ever declared (for invariants)
	addrTaken    map[string]bool // names whose address is taken somewhere in the function
	reassigned   map[string]bool // names assigned somewhere other than their declaration (or whose address is taken)
	directLocals map[string]cVal
}

func (g *CGen) cpos() string {
	g.Gen.cPos = fmt.Sprintf("%s:%d", g.cf.File, g.line)
	return g.Gen.cPos
}

func (g *CGen) cfail(format string, a ...any) {
	panic(unsupported{fmt.Sprintf("%s:%d: ", g.cf.File, g.line) + fmt.Sprintf(format, a...)})
}

func (g *CGen) ctype(t *cType) types.Type {
	if t == nil {
		g.cfail("node without type")
	}
	ty, err := parseCType(t.QualType)
	if err != nil && t.Desugared != "" {
		ty, err = parseCType(t.Desugared)
	}
	if err != nil {
		g.cfail("%v", err)
	}
	return ty
}

func (g *CGen) obl(kind, label, cond string) {
	g.Gen.obligeAt(kind, label, g.cpos(), g.curPC, cond)
}

// GenCFunc generates the verification conditions of a C function against its contract.
func GenCFunc(P *Program, DB *SpecDB, name string, spec *FuncSpec) (res *FuncResult) {
	key := "C." + name
	if spec == nil {
		spec = &FuncSpec{Key: key, Loops: map[int]*LoopSpec{}}
	}
	g := &Gen{P: P, DB: DB, M: spec.Mode, spec: spec, key: key}
	g.L = NewLayout(g.M)
	g.isC = true
	g.init()
	res = &FuncResult{Key: key, Mode: g.M, Spec: spec}
	cg := &CGen{Gen: g, labels: map[string][]cFlow{}, params: map[string]string{}, globals: map[string]string{}, allLocal: map[string]cVal{}}
	defer func() {
		if r := recover(); r != nil {
			switch r := r.(type) {
			case unsupported:
				res.Skipped = r.msg
			case specError:
				res.Skipped = "contract error: " + r.msg
			default:
				panic(r)
			}
		}
		res.Decls, res.Cmds, res.Obls, res.Warnings = append(g.decls, g.prelude...), g.cmds, g.obls, g.Warnings
		for k := range g.UsedSpecs {
			res.Callees = append(res.Callees, k)
		}
		sort.Strings(res.Callees)
		res.Loops = cg.nloop
	}()
	cf, err := LoadCFunc(P.Dir, name)
	if err != nil {
		res.Skipped = err.Error()
		return res
	}
	cg.cf = cf
	cg.line = cf.Line
	res.Pos = fmt.Sprintf("%s:%d", cf.File, cf.Line)
	cg.enums = parseCEnums(P.Dir)
	cg.run()
	return res
}

func (g *CGen) registerCHeaps() {
	for _, s := range []string{"Int", "Bool", "Ptr"} {
		g.heapFor(s)
	}
	if !g.M.BV {
		for _, s := range []string{"LInt", "LBool", "LPtr"} {
			g.heapFor(s)
		}
	}
	if g.M.BV {
		for _, w := range []int{8, 32, 64} {
			g.heapFor(bvSort(w))
		}
	}
	g.frozen = true
}

func (g *CGen) run() {
	g.declare("alloc@0", "Int")
	g.assume(app(">=", "alloc@0", "0"))
	g.entry = &State{H: map[string]string{}, Alloc: "alloc@0"}
	g.registerCHeaps()
	g.cur = g.entry.clone()
	g.curPC = "true"
	rt, err := parseCType(strings.TrimSpace(strings.SplitN(g.cf.Node.Type.QualType, "(", 2)[0]))
	if err != nil {
		g.cfail("return type: %v", err)
	}
	g.retType = rt
	// parameters: entry values, then a local object each (C parameters are assignable)
	env := &SpecEnv{g: g.Gen, vars: map[string]SVal{}, st: g.entry, old: g.entry, alloc0: "alloc@0", cOwn: true}
	for i, p := range g.cf.Params {
		t := g.ctype(p.Type)
		n := g.declare("a_"+sanitize(p.Name), g.sortOf(t))
		g.assume(g.wellFormed(n, t, "alloc@0"))
		g.params[p.Name] = n
		v := SVal{S: n, T: t, Sort: g.sortOf(t)}
		env.vars[p.Name] = v
		env.vars[fmt.Sprintf("arg%d", i)] = v
	}
	g.addEnumVars(env)
	g.specEnv = env
	for _, c := range g.spec.Requires {
		s, err := env.EvalBool(c.Expr)
		if err != nil {
			specFail("%s: requires %s: %v", c.Pos, c.Src, err)
		}
		g.assume(s)
	}
	g.unfoldChunkDefinitions()
	g.assignAll = g.spec.AssignsAll || !g.spec.HasAssigns
	for _, a := range g.spec.Assigns {
		r, err := env.EvalRegion(a)
		if err != nil {
			specFail("assigns %s: %v", exprString(a), err)
		}
		g.fnAssigns = append(g.fnAssigns, r)
	}
	g.obls = append(g.obls, &Obl{Name: g.key + ":canary:entry", Kind: "canary", Func: g.key, Prefix: len(g.cmds), Goal: "false", Canary: true, Pos: g.cpos()})
	g.pushScope()
	g.addrTaken = g.addressTaken(g.cf.Body)
	g.reassigned = g.assignedLocalsOpt(g.cf.Body, false)
	g.directLocals = map[string]cVal{}
	assigned := g.assignedLocals(g.cf.Body)
	for _, p := range g.cf.Params {
		t := g.ctype(p.Type)
		if !assigned[p.Name] {
			// never assigned and its address is never taken: the name simply denotes the entry value
			g.locals[len(g.locals)-1][p.Name] = cVal{S: g.params[p.Name], T: t, Const: nil, direct: true}
			continue
		}
		addr := g.newLocal(p.Name, t)
		g.storeVal(addr, g.allLocal[p.Name].T, g.params[p.Name])
	}
	g.stmt(g.cf.Body)
	// falling off the end of a void function
	if g.curPC != "false" {
		g.doReturn("", g.cf.Line)
	}
	g.finishReturns()
}

// addEnumVars makes the C enumerators available to contracts.
func (g *CGen) addEnumVars(env *SpecEnv) {
	for n, v := range g.enums {
		if _, clash := env.vars[n]; !clash {
			env.vars[n] = SVal{S: g.M.IntLit(big.NewInt(v), ctError), T: ctError, Sort: g.sortOf(ctError)}
		}
	}
	// the Go-side names of the same constants (contracts are shared with the cgo call sites)
	for goName, cName := range map[string]string{"valid": "VALID", "invalid": "INVALID", "badEncoding": "BAD_ENCODING", "badValue": "BAD_VALUE", "pointNotOnCurve": "POINT_NOT_ON_CURVE"} {
		if v, ok := g.enums[cName]; ok {
			if _, clash := env.vars[goName]; !clash {
				env.vars[goName] = SVal{S: g.M.IntLit(big.NewInt(v), ctError), T: ctError, Sort: g.sortOf(ctError)}
			}
		}
	}
}

func (g *CGen) pushScope() { g.locals = append(g.locals, map[string]cVal{}) }
func (g *CGen) popScope()  { g.locals = g.locals[:len(g.locals)-1] }

func (g *CGen) newLocal(name string, t types.Type) string {
	if !g.M.BV && !isComposite(t) && !isOpaque(t) && !g.addrTaken[name] {
		switch g.L.CellSort(t) {
		case "Int", "Bool", "Ptr":
			t = wrapLocal(t) // a scalar whose address is never taken: kept apart from the data heaps
		}
	}
	o := g.newObject(g.cur)
	g.assume(sEq(app("objsize", o), g.M.IxLit(g.L.Size(t))))
	g.assume(sEq(app("objtype", o), "0"))
	addr := g.mkptr(o, g.M.IxLit(0))
	g.locals[len(g.locals)-1][name] = cVal{S: addr, T: t}
	g.allLocal[name] = cVal{S: addr, T: t}
	return addr
}

func (g *CGen) lookupLocal(name string) (cVal, bool) {
	for i := len(g.locals) - 1; i >= 0; i-- {
		if v, ok := g.locals[i][name]; ok {
			return v, true
		}
	}
	return cVal{}, false
}

// cEnv is the contract environment at the current point: parameters denote their entry values,
// locals their current values.
func (g *CGen) cEnv(st *State) *SpecEnv {
	env := &SpecEnv{g: g.Gen, vars: map[string]SVal{}, st: st, old: g.entry, alloc0: "alloc@0", cOwn: true}
	for k, v := range g.specEnv.vars {
		env.vars[k] = v
	}
	for n, lv := range g.allLocal {
		if _, isParam := g.params[n]; isParam {
			// inside the body a parameter name denotes the (assignable) local copy
			env.vars[n] = SVal{T: lv.T, Addr: lv.S, Sort: g.sortOf(lv.T)}
			if isComposite(lv.T) {
				env.vars[n] = SVal{T: lv.T, Addr: lv.S, S: lv.S, Sort: "Ptr"}
			}
			continue
		}
		if isComposite(lv.T) {
			env.vars[n] = SVal{T: lv.T, Addr: lv.S, S: lv.S, Sort: "Ptr"}
		} else {
			env.vars[n] = SVal{T: lv.T, Addr: lv.S, Sort: g.sortOf(lv.T)}
		}
	}
	for n, dv := range g.directLocals {
		env.vars[n] = SVal{S: dv.S, T: dv.T, Sort: g.sortOf(dv.T)}
	}
	for i, p := range g.cf.Params {
		env.vars[fmt.Sprintf("arg%d", i)] = g.specEnv.vars[p.Name]
	}
	return env
}

// ---------- statements ----------

func (g *CGen) dead() bool { return g.curPC == "false" }

func (g *CGen) stmt(n *cNode) {
	if n == nil || n.Kind == "" {
		return
	}
	if l := n.line(); l > 0 {
		g.line = l
		g.cpos()
	}
	if g.dead() && n.Kind != "LabelStmt" && n.Kind != "CompoundStmt" {
		return
	}
	switch n.Kind {
	case "CompoundStmt":
		g.pushScope()
		for _, c := range n.Inner {
			g.stmt(c)
		}
		g.popScope()
	case "DeclStmt":
		for _, d := range n.Inner {
			if d.Kind != "VarDecl" {
				continue
			}
			t := g.ctype(d.Type)
			if len(d.Inner) > 0 && !isComposite(t) && !g.reassigned[d.Name] && d.Inner[len(d.Inner)-1].Kind != "InitListExpr" {
				// initialised once and never assigned again: the name denotes that value
				v := g.rvalue(d.Inner[len(d.Inner)-1])
				c := g.freshConst("l_"+sanitize(d.Name), g.sortOf(t))
				g.assume(sEq(c, g.convTo(v, t)))
				g.locals[len(g.locals)-1][d.Name] = cVal{S: c, T: t, direct: true}
				g.directLocals[d.Name] = cVal{S: c, T: t}
				continue
			}
			addr := g.newLocal(d.Name, t)
			if len(d.Inner) > 0 {
				init := d.Inner[len(d.Inner)-1]
				if init.Kind == "InitListExpr" {
					g.cfail("initializer lists are not supported")
				}
				v := g.rvalue(init)
				g.storeVal(addr, g.allLocal[d.Name].T, g.convTo(v, t))
			}
		}
	case "IfStmt":
		g.ifStmt(n)
	case "ForStmt":
		g.loopStmt(n.Inner[0], n.Inner[2], n.Inner[3], n.Inner[4], n)
	case "WhileStmt":
		g.loopStmt(nil, n.Inner[0], nil, n.Inner[1], n)
	case "ReturnStmt":
		val := ""
		if len(n.Inner) > 0 {
			v := g.rvalue(n.Inner[0])
			val = g.convTo(v, g.retType)
		}
		g.doReturn(val, n.line())
	case "GotoStmt":
		lbl := g.gotoLabel(n)
		g.labels[lbl] = append(g.labels[lbl], cFlow{g.curPC, g.cur})
		g.curPC = "false"
	case "LabelStmt":
		pend := g.labels[n.Name]
		delete(g.labels, n.Name)
		flows := pend
		if !g.dead() {
			flows = append([]cFlow{{g.curPC, g.cur}}, flows...)
		}
		g.joinFlows(flows)
		for _, c := range n.Inner {
			g.stmt(c)
		}
	case "BreakStmt":
		l := g.loops[len(g.loops)-1]
		l.breaks = append(l.breaks, cFlow{g.curPC, g.cur})
		g.curPC = "false"
	case "ContinueStmt":
		l := g.loops[len(g.loops)-1]
		l.continues = append(l.continues, cFlow{g.curPC, g.cur})
		g.curPC = "false"
	case "NullStmt":
	default:
		// expression statement
		g.expr(n)
	}
}

func (g *CGen) gotoLabel(n *cNode) string {
	// clang prints the target as "targetLabelDeclId"; the label name is recovered from the source line
	src, err := os.ReadFile(filepath.Join(g.P.Dir, g.cf.File))
	if err == nil {
		lines := strings.Split(string(src), "\n")
		if l := n.line(); l > 0 && l <= len(lines) {
			if m := regexp.MustCompile(`goto\s+(\w+)\s*;`).FindStringSubmatch(lines[l-1]); m != nil {
				return m[1]
			}
		}
	}
	g.cfail("cannot resolve goto target")
	return ""
}

// joinFlows makes the merge of the given flows the current flow.
func (g *CGen) joinFlows(flows []cFlow) {
	var live []cFlow
	for _, f := range flows {
		if f.pc != "false" {
			live = append(live, f)
		}
	}
	if len(live) == 0 {
		g.curPC = "false"
		return
	}
	if len(live) == 1 {
		g.curPC, g.cur = live[0].pc, live[0].st.clone()
		return
	}
	var conds []string
	var sts []*State
	for _, f := range live {
		conds = append(conds, f.pc)
		sts = append(sts, f.st)
	}
	pc := g.freshConst("pc", "Bool")
	g.assume(sEq(pc, sOr(conds...)))
	g.cur = g.mergeStates(conds, sts)
	g.curPC = pc
}

func (g *CGen) namePC(pc string) string {
	if pc == "true" || pc == "false" || !strings.HasPrefix(pc, "(") {
		return pc
	}
	n := g.freshConst("pc", "Bool")
	g.assume(sEq(n, pc))
	return n
}

func (g *CGen) ifStmt(n *cNode) {
	c := g.cond(n.Inner[0])
	pc0 := g.curPC
	st0 := g.cur
	g.curPC = g.namePC(sAnd(pc0, c))
	g.cur = st0.clone()
	g.stmt(n.Inner[1])
	thenFlow := cFlow{g.curPC, g.cur}
	g.curPC = g.namePC(sAnd(pc0, sNot(c)))
	g.cur = st0.clone()
	if len(n.Inner) > 2 {
		g.stmt(n.Inner[2])
	}
	elseFlow := cFlow{g.curPC, g.cur}
	g.joinFlows([]cFlow{thenFlow, elseFlow})
}

func (g *CGen) doReturn(val string, line int) {
	g.returns = append(g.returns, struct {
		cFlow
		val  string
		line int
	}{cFlow{g.curPC, g.cur}, val, line})
	g.curPC = "false"
}

func (g *CGen) finishReturns() {
	for i, r := range g.returns {
		g.curPC, g.cur, g.line = r.pc, r.st, r.line
		g.obls = append(g.obls, &Obl{Name: fmt.Sprintf("%s:canary:return%d", g.key, i+1), Kind: "canary", Func: g.key, Prefix: len(g.cmds), Goal: sNot(r.pc), Canary: true, ExpectDead: g.spec.DeadReturns[i+1], Pos: g.cpos()})
		env := &SpecEnv{g: g.Gen, vars: map[string]SVal{}, st: r.st, old: g.entry, alloc0: "alloc@0", cOwn: true}
		for k, v := range g.specEnv.vars {
			env.vars[k] = v
		}
		if r.val != "" {
			v := SVal{S: r.val, T: g.retType, Sort: g.sortOf(g.retType)}
			env.vars["result"] = v
			env.vars["result0"] = v
		}
		for _, c := range g.spec.Ensures {
			if c.Slow && Tier == "quick" {
				continue
			}
			s, err := env.EvalBool(c.Expr)
			if err != nil {
				specFail("%s: ensures %s: %v", c.Pos, c.Src, err)
			}
			g.Gen.obligeAt("ensures", labelOr(c.Label, c.Src), g.cpos(), r.pc, s)
		}
	}
}

// ---------- loops ----------

func (g *CGen) loopStmt(init, cond, inc, body, n *cNode) {
	g.pushScope()
	defer g.popScope()
	if init != nil && init.Kind != "" {
		g.stmt(init)
	}
	g.nloop++
	ord := g.nloop
	ls := g.spec.Loops[ord]
	if ls == nil {
		ls = &LoopSpec{}
	}
	pos := g.cpos()
	entryPC := g.curPC
	entrySt := g.cur
	// 1. invariants on entry
	envE := g.cEnv(entrySt)
	for _, c := range ls.Invs {
		s, err := envE.EvalBool(c.Expr)
		if err != nil {
			specFail("%s: loop %d invariant %s: %v", c.Pos, ord, c.Src, err)
		}
		g.Gen.obligeAt("inv-entry", fmt.Sprintf("loop%d.%s", ord, labelOr(c.Label, c.Src)), pos, entryPC, s)
	}
	// 2. havoc what the loop modifies: assigned locals (found syntactically) and the declared regions
	head := entrySt.clone()
	g.cur = head
	var regions []Region
	for _, a := range ls.Assigns {
		r, err := envE.EvalRegion(a)
		if err != nil {
			specFail("loop %d assigns %s: %v", ord, exprString(a), err)
		}
		regions = append(regions, r)
	}
	if ls.HavocAll {
		g.havocAll(head)
	}
	for _, name := range sortedKeys(g.assignedLocals(n)) {
		if lv, ok := g.lookupLocal(name); ok && !lv.direct {
			regions = append(regions, Region{Obj: pObj(lv.S), Lo: pOff(lv.S), Hi: g.M.ixAdd(pOff(lv.S), g.M.IxLit(g.L.Size(lv.T))), T: lv.T})
		}
	}
	for _, r := range regions {
		g.havocRegion(head, r)
	}
	if g.containsCall(n) {
		a := g.freshConst("alloc", "Int")
		g.assume(app(">=", a, entrySt.Alloc))
		head.Alloc = a
	}
	lctx := &cLoopCtx{}
	g.loops = append(g.loops, lctx)
	loopInfo := &Loop{Ordinal: ord, Spec: ls, Checked: true, Regions: regions, HeadSt: head.clone(), Blocks: nil}
	g.cLoopStack = append(g.cLoopStack, loopInfo)
	// locals' well-formedness + invariants at the head
	envH := g.cEnv(head)
	for _, name := range sortedKeys(g.assignedLocals(n)) {
		if lv, ok := g.lookupLocal(name); ok && !lv.direct && !isComposite(lv.T) {
			g.assumePC(g.wellFormed(g.loadVal(lv.S, lv.T), lv.T, head.Alloc))
		}
	}
	for _, c := range ls.Invs {
		s, err := envH.EvalBool(c.Expr)
		if err != nil {
			specFail("%s: loop %d invariant %s: %v", c.Pos, ord, c.Src, err)
		}
		g.assumePC(s)
	}
	decVal := ""
	if ls.Decreases != nil {
		v, err := envH.EvalVal(ls.Decreases)
		if err != nil {
			specFail("loop %d decreases: %v", ord, err)
		}
		decVal = v.S
	}
	g.obls = append(g.obls, &Obl{Name: fmt.Sprintf("%s:canary:loop%d", g.key, ord), Kind: "canary", Func: g.key, Prefix: len(g.cmds), Goal: sNot(g.curPC), Canary: true, Pos: pos})
	// 3. condition
	c := "true"
	if cond != nil && cond.Kind != "" {
		c = g.cond(cond)
	}
	headPC := g.curPC
	afterCond := g.cur
	// guard / exit clauses
	envC := g.cEnv(afterCond)
	for _, cl := range ls.Guards {
		t, err := envC.EvalBool(cl.Expr)
		if err != nil {
			specFail("loop %d guard: %v", ord, err)
		}
		g.Gen.obligeAt("loop-guard", fmt.Sprintf("loop%d.%s", ord, labelOr(cl.Label, cl.Src)), pos, sAnd(headPC, c), t)
	}
	for _, cl := range ls.Exits {
		t, err := envC.EvalBool(cl.Expr)
		if err != nil {
			specFail("loop %d exit: %v", ord, err)
		}
		g.Gen.obligeAt("loop-exit", fmt.Sprintf("loop%d.%s", ord, labelOr(cl.Label, cl.Src)), pos, sAnd(headPC, sNot(c)), t)
	}
	// 4. body
	g.curPC = g.namePC(sAnd(headPC, c))
	g.cur = afterCond.clone()
	g.stmt(body)
	flows := append([]cFlow{{g.curPC, g.cur}}, lctx.continues...)
	g.joinFlows(flows)
	if inc != nil && inc.Kind != "" && !g.dead() {
		g.expr(inc)
	}
	// 5. back edge: invariants preserved
	if !g.dead() {
		envB := g.cEnv(g.cur)
		for _, cl := range ls.Invs {
			s, err := envB.EvalBool(cl.Expr)
			if err != nil {
				specFail("%s: loop %d invariant %s: %v", cl.Pos, ord, cl.Src, err)
			}
			g.Gen.obligeAt("inv-preserved", fmt.Sprintf("loop%d.%s", ord, labelOr(cl.Label, cl.Src)), pos, g.curPC, s)
		}
		if ls.Decreases != nil {
			v, err := envB.EvalVal(ls.Decreases)
			if err != nil {
				specFail("loop %d decreases: %v", ord, err)
			}
			g.Gen.obligeAt("decreases", fmt.Sprintf("loop%d", ord), pos, g.curPC, sAnd(app("<", v.S, decVal), app("<=", "0", decVal)))
		}
	}
	g.loops = g.loops[:len(g.loops)-1]
	g.cLoopStack = g.cLoopStack[:len(g.cLoopStack)-1]
	// 6. exits: condition false at the head, or break
	exitFlows := append([]cFlow{{g.namePC(sAnd(headPC, sNot(c))), afterCond}}, lctx.breaks...)
	g.joinFlows(exitFlows)
}

// assignedLocals returns the names of the local variables assigned anywhere in the loop (syntactically).
func (g *CGen) assignedLocals(n *cNode) map[string]bool { return g.assignedLocalsOpt(n, true) }

func (g *CGen) assignedLocalsOpt(n *cNode, withDecls bool) map[string]bool {
	out := map[string]bool{}
	var walk func(x *cNode)
	lvalRoot := func(x *cNode) string {
		for x != nil {
			switch x.Kind {
			case "DeclRefExpr":
				if x.Ref != nil && (x.Ref.Kind == "VarDecl" || x.Ref.Kind == "ParmVarDecl") {
					return x.Ref.Name
				}
				return ""
			case "ParenExpr", "ImplicitCastExpr", "CStyleCastExpr":
				x = x.Inner[0]
			case "MemberExpr":
				if x.IsArrow {
					return ""
				}
				x = x.Inner[0]
			case "ArraySubscriptExpr":
				// a[i] where a is a local array (not a pointer)
				b := x.Inner[0]
				for b.Kind == "ImplicitCastExpr" || b.Kind == "ParenExpr" {
					if b.Kind == "ImplicitCastExpr" && b.CastKind != "ArrayToPointerDecay" {
						return ""
					}
					b = b.Inner[0]
				}
				x = b
			default:
				return ""
			}
		}
		return ""
	}
	walk = func(x *cNode) {
		if x == nil {
			return
		}
		switch x.Kind {
		case "BinaryOperator":
			if x.Opcode == "=" {
				if r := lvalRoot(x.Inner[0]); r != "" {
					out[r] = true
				}
			}
		case "CompoundAssignOperator":
			if r := lvalRoot(x.Inner[0]); r != "" {
				out[r] = true
			}
		case "UnaryOperator":
			if x.Opcode == "++" || x.Opcode == "--" {
				if r := lvalRoot(x.Inner[0]); r != "" {
					out[r] = true
				}
			}
			if x.Opcode == "&" {
				// address taken: the variable may be written through the pointer (e.g. passed to a callee)
				if r := lvalRoot(x.Inner[0]); r != "" {
					out[r] = true
				}
			}
		case "VarDecl":
			if withDecls {
				out[x.Name] = true
			}
		case "ImplicitCastExpr":
			if x.CastKind == "ArrayToPointerDecay" {
				if r := lvalRoot(x.Inner[0]); r != "" {
					out[r] = true
				}
			}
		}
		for _, c := range x.Inner {
			walk(c)
		}
	}
	walk(n)
	return out
}

// addressTaken returns the names of the variables whose address is taken (&x, &x.f, &x[i]) or that decay to a pointer.
func (g *CGen) addressTaken(n *cNode) map[string]bool {
	out := map[string]bool{}
	root := func(x *cNode) string {
		for x != nil {
			switch x.Kind {
			case "DeclRefExpr":
				if x.Ref != nil && (x.Ref.Kind == "VarDecl" || x.Ref.Kind == "ParmVarDecl") {
					return x.Ref.Name
				}
				return ""
			case "ParenExpr", "ImplicitCastExpr", "CStyleCastExpr":
				x = x.Inner[0]
			case "MemberExpr":
				if x.IsArrow {
					return ""
				}
				x = x.Inner[0]
			case "ArraySubscriptExpr":
				b := x.Inner[0]
				for b.Kind == "ImplicitCastExpr" || b.Kind == "ParenExpr" {
					if b.Kind == "ImplicitCastExpr" && b.CastKind != "ArrayToPointerDecay" {
						return ""
					}
					b = b.Inner[0]
				}
				x = b
			default:
				return ""
			}
		}
		return ""
	}
	var walk func(x *cNode)
	walk = func(x *cNode) {
		if x == nil {
			return
		}
		if x.Kind == "UnaryOperator" && x.Opcode == "&" {
			if r := root(x.Inner[0]); r != "" {
				out[r] = true
			}
		}
		if x.Kind == "ImplicitCastExpr" && x.CastKind == "ArrayToPointerDecay" {
			if r := root(x.Inner[0]); r != "" {
				out[r] = true
			}
		}
		for _, c := range x.Inner {
			walk(c)
		}
	}
	walk(n)
	return out
}

// sortedKeys: deterministic iteration order (the order of the generated commands influences the solvers)
func sortedKeys(m map[string]bool) []string {
	ks := make([]string, 0, len(m))
	for k := range m {
		ks = append(ks, k)
	}
	sort.Strings(ks)
	return ks
}

func (g *CGen) containsCall(n *cNode) bool {
	if n == nil {
		return false
	}
	if n.Kind == "CallExpr" {
		return true
	}
	for _, c := range n.Inner {
		if g.containsCall(c) {
			return true
		}
	}
	return false
}

// ---------- expressions ----------

func (g *CGen) intConst(v cVal) (*big.Int, bool) { return v.Const, v.Const != nil }

func (g *CGen) lit(n *big.Int, t types.Type) cVal {
	return cVal{S: g.M.IntLit(n, t), T: t, Const: n}
}

func isCInt(t types.Type) bool { return isInteger(t) }

func isCBool(t types.Type) bool {
	b, ok := t.Underlying().(*types.Basic)
	return ok && b.Kind() == types.Bool
}

// convTo converts rvalue v to C type t (integer conversions, bool <-> int).
func (g *CGen) convTo(v cVal, t types.Type) string {
	v.T, t = unwrapLocal(v.T), unwrapLocal(t)
	if types.Identical(v.T, t) {
		return v.S
	}
	switch {
	case isCInt(v.T) && isCInt(t):
		if v.Const != nil {
			w, signed := intBits(t.Underlying().(*types.Basic))
			lo, hi := intRange(w, signed)
			if v.Const.Cmp(lo) >= 0 && v.Const.Cmp(hi) <= 0 {
				return g.M.IntLit(v.Const, t)
			}
		}
		return g.convertInt(v.S, v.T, t)
	case isCBool(v.T) && isCInt(t):
		return sIte(v.S, g.M.IntLit(big.NewInt(1), t), g.M.IntLit(big.NewInt(0), t))
	case isCInt(v.T) && isCBool(t):
		return sNot(sEq(v.S, g.M.IntLit(bigZero, v.T)))
	case g.sortOf(v.T) == "Ptr" && g.sortOf(t) == "Ptr":
		return v.S
	case g.sortOf(v.T) == "Ptr" && isCBool(t):
		return g.nonNil(v.S)
	case g.sortOf(v.T) == "Ptr" && isCInt(t):
		// pointer to integer (uptr_t comparisons): an injective encoding
		return app("ptr2int", v.S)
	case isCInt(v.T) && g.sortOf(t) == "Ptr":
		if v.Const != nil && v.Const.Sign() == 0 {
			return nilPtr(g.M)
		}
	}
	if isOpaque(v.T) && isOpaque(t) {
		return v.S
	}
	g.cfail("unsupported conversion %v -> %v", v.T, t)
	return ""
}

// cond evaluates a controlling expression to a Bool term.
func (g *CGen) cond(n *cNode) string {
	v := g.rvalue(n)
	return g.convTo(v, types.Typ[types.Bool])
}

func (g *CGen) expr(n *cNode) { g.rvalueOpt(n, true) }

func (g *CGen) rvalue(n *cNode) cVal { return g.rvalueOpt(n, false) }

// lvalue evaluates n to the address of an object.
func (g *CGen) lvalue(n *cNode) cVal {
	if l := n.line(); l > 0 {
		g.line = l
	}
	switch n.Kind {
	case "ParenExpr":
		return g.lvalue(n.Inner[0])
	case "DeclRefExpr":
		if n.Ref == nil {
			g.cfail("DeclRefExpr without referencedDecl")
		}
		if lv, ok := g.lookupLocal(n.Ref.Name); ok {
			if lv.direct {
				g.cfail("parameter %s used as an lvalue", n.Ref.Name)
			}
			return lv
		}
		if n.Ref.Kind == "VarDecl" {
			// global constant of the library (BLS12_381_pR, B_E1, ...): an object with an uninterpreted value
			t := g.ctype(n.Type)
			return cVal{S: g.cGlobal(n.Ref.Name, t), T: t}
		}
		g.cfail("unknown variable %s", n.Ref.Name)
	case "ArraySubscriptExpr":
		base := g.rvalue(n.Inner[0])
		idx := g.rvalue(n.Inner[1])
		et, ok := deref(base.T)
		if !ok {
			g.cfail("subscript of non-pointer %v", base.T)
		}
		i := g.convTo(idx, typInt)
		g.obl("nil", "", g.nonNil(base.S))
		p := g.ptrAdd(base.S, g.M.ixMulC(i, g.L.Size(et)))
		g.obl("bounds", "", g.validCells(p, g.L.Size(et)))
		return cVal{S: p, T: et}
	case "MemberExpr":
		var base cVal
		if n.IsArrow {
			pv := g.rvalue(n.Inner[0])
			et, ok := deref(pv.T)
			if !ok {
				g.cfail("-> on non-pointer")
			}
			g.obl("nil", "", g.nonNil(pv.S))
			base = cVal{S: pv.S, T: et}
		} else {
			base = g.lvalue(n.Inner[0])
		}
		st, ok := base.T.Underlying().(*types.Struct)
		if !ok {
			g.cfail("member of non-struct %v", base.T)
		}
		for i := 0; i < st.NumFields(); i++ {
			if st.Field(i).Name() == n.Name {
				return cVal{S: g.ptrAdd(base.S, g.M.IxLit(g.L.FieldOff(base.T, i))), T: st.Field(i).Type()}
			}
		}
		g.cfail("no field %s in %v", n.Name, base.T)
	case "UnaryOperator":
		if n.Opcode == "*" {
			pv := g.rvalue(n.Inner[0])
			et, ok := deref(pv.T)
			if !ok {
				g.cfail("* on non-pointer")
			}
			g.obl("nil", "", g.nonNil(pv.S))
			g.obl("bounds", "", g.validCells(pv.S, g.L.Size(et)))
			return cVal{S: pv.S, T: et}
		}
	case "ImplicitCastExpr", "CStyleCastExpr":
		if n.CastKind == "NoOp" || n.CastKind == "LValueBitCast" {
			v := g.lvalue(n.Inner[0])
			v.T = g.ctype(n.Type)
			return v
		}
	}
	g.cfail("unsupported lvalue %s %s", n.Kind, n.Opcode)
	return cVal{}
}

// validCells: the n cells at p lie inside p's object.
func (g *CGen) validCells(p string, n int64) string {
	return sAnd(g.M.ixLe(g.M.IxLit(0), pOff(p)), g.M.ixLe(g.M.ixAdd(pOff(p), g.M.IxLit(n)), app("objsize", pObj(p))))
}

func (g *CGen) cGlobal(name string, t types.Type) string {
	if a, ok := g.globals[name]; ok {
		return a
	}
	id := fmt.Sprintf("(- %d)", 100+2*len(g.globals))
	a := g.mkptr(id, g.M.IxLit(0))
	g.globals[name] = a
	g.assume(sEq(app("objsize", id), g.M.IxLit(g.L.Size(t))))
	if et, isPtr := deref(t); isPtr {
		// a library global that is a pointer to a constant (BLS12_381_minus_g2): it points to a constant object
		// whose abstract value is the theory constant of the same name
		id2 := fmt.Sprintf("(- %d)", 101+2*(len(g.globals)-1))
		g.assume(sEq(app("objsize", id2), g.M.IxLit(g.L.Size(et))))
		g.prelude = append(g.prelude, fmt.Sprintf("(assert (= (select (select %s@0 %s) %s) %s))", g.heapFor("Ptr"), id, g.M.IxLit(0), g.mkptr(id2, g.M.IxLit(0))))
		env := &SpecEnv{g: g.Gen, vars: map[string]SVal{}, st: g.entry, old: g.entry}
		v := env.abstractC(SVal{T: et, Addr: g.mkptr(id2, g.M.IxLit(0)), S: g.mkptr(id2, g.M.IxLit(0)), Sort: "Ptr"})
		if tf, ok := Theory["c_"+name]; ok {
			g.prelude = append(g.prelude, fmt.Sprintf("(assert (= %s %s))", v.S, tf.SMT))
		}
		return a
	}
	// its content is a named constant (one per cell; the library never writes its constants)
	if !isComposite(t) {
		c := g.declare("cglobal_"+sanitize(name), g.L.CellSort(t))
		g.prelude = append(g.prelude, fmt.Sprintf("(assert (= (select (select %s@0 %s) %s) %s))", g.heapFor(g.L.CellSort(t)), id, g.M.IxLit(0), c))
	} else if g.L.Size(t) <= 8 {
		for _, r := range g.L.Ranges(t) {
			for k := int64(0); k < r.Count; k++ {
				c := g.declare(fmt.Sprintf("cglobal_%s_%d", sanitize(name), r.Off+k), r.Sort)
				g.prelude = append(g.prelude, fmt.Sprintf("(assert (= (select (select %s@0 %s) %s) %s))", g.heapFor(r.Sort), id, g.M.IxLit(r.Off+k), c))
			}
		}
	}
	return a
}

func (g *CGen) rvalueOpt(n *cNode, discard bool) cVal {
	if l := n.line(); l > 0 {
		g.line = l
	}
	switch n.Kind {
	case "ParenExpr", "ConstantExpr":
		return g.rvalueOpt(n.Inner[0], discard)
	case "IntegerLiteral", "CharacterLiteral":
		t := g.ctype(n.Type)
		var s string
		if err := json.Unmarshal(n.Value, &s); err != nil {
			var f float64
			json.Unmarshal(n.Value, &f)
			s = strconv.FormatInt(int64(f), 10)
		}
		v, _ := new(big.Int).SetString(s, 10)
		return g.lit(v, t)
	case "DeclRefExpr":
		if n.Ref != nil && n.Ref.Kind == "EnumConstantDecl" {
			v, ok := g.enums[n.Ref.Name]
			if !ok {
				g.cfail("unknown enumerator %s", n.Ref.Name)
			}
			return g.lit(big.NewInt(v), g.ctype(n.Type))
		}
		if n.Ref != nil && n.Ref.Kind == "FunctionDecl" {
			return cVal{S: n.Ref.Name, T: types.Typ[types.UnsafePointer]}
		}
		if n.Ref != nil {
			if lv, ok := g.lookupLocal(n.Ref.Name); ok && lv.direct {
				return cVal{S: lv.S, T: lv.T}
			}
		}
		lv := g.lvalue(n)
		return cVal{S: g.loadVal(lv.S, lv.T), T: unwrapLocal(lv.T)}
	case "ImplicitCastExpr", "CStyleCastExpr":
		t := g.ctype(n.Type)
		switch n.CastKind {
		case "LValueToRValue":
			in := n.Inner[0]
			for in.Kind == "ParenExpr" {
				in = in.Inner[0]
			}
			if in.Kind == "DeclRefExpr" && in.Ref != nil {
				if lv, ok := g.lookupLocal(in.Ref.Name); ok && lv.direct {
					return cVal{S: lv.S, T: lv.T}
				}
			}
			lv := g.lvalue(n.Inner[0])
			if isComposite(lv.T) {
				return cVal{S: lv.S, T: lv.T} // aggregate rvalues are handled by address
			}
			return cVal{S: g.loadVal(lv.S, lv.T), T: unwrapLocal(lv.T)}
		case "ArrayToPointerDecay":
			lv := g.lvalue(n.Inner[0])
			if isOpaque(lv.T) {
				// a BLST vector type (limb array) seen as one opaque cell: the pointer to its first limb is the pointer to the cell
				return cVal{S: lv.S, T: types.NewPointer(lv.T)}
			}
			at, ok := lv.T.Underlying().(*types.Array)
			if !ok {
				g.cfail("array decay of %v", lv.T)
			}
			return cVal{S: lv.S, T: types.NewPointer(at.Elem())}
		case "FunctionToPointerDecay", "BuiltinFnToFnPtr":
			return g.rvalueOpt(n.Inner[0], discard)
		case "NoOp", "BitCast":
			v := g.rvalueOpt(n.Inner[0], discard)
			return cVal{S: g.convTo(v, t), T: t, Const: v.Const}
		case "IntegralCast", "IntegralToBoolean", "PointerToBoolean", "PointerToIntegral", "NullToPointer", "IntegralToPointer", "BooleanToSignedIntegral":
			v := g.rvalueOpt(n.Inner[0], discard)
			out := cVal{S: g.convTo(v, t), T: t}
			if v.Const != nil && isCInt(t) {
				if lit, ok := g.constIn(v.Const, t); ok {
					out.Const = lit
				}
			}
			return out
		case "ToVoid":
			g.rvalueOpt(n.Inner[0], true)
			return cVal{T: ctVoid}
		}
		g.cfail("unsupported cast kind %s", n.CastKind)
	case "UnaryOperator":
		return g.unary(n, discard)
	case "BinaryOperator":
		return g.binary(n, discard)
	case "CompoundAssignOperator":
		lv := g.lvalue(n.Inner[0])
		cur := cVal{S: g.loadVal(lv.S, lv.T), T: unwrapLocal(lv.T)}
		rhs := g.rvalue(n.Inner[1])
		op := strings.TrimSuffix(n.Opcode, "=")
		var res cVal
		if _, isPtr := deref(lv.T); isPtr {
			res = g.ptrArith(op, cur, rhs)
		} else {
			// computation type: the usual arithmetic conversions were made explicit on the operands only for rhs
			ct := g.ctype(n.Type)
			pt := promote(lv.T, rhs.T)
			a := cVal{S: g.convTo(cur, pt), T: pt}
			b := cVal{S: g.convTo(rhs, pt), T: pt, Const: rhs.Const}
			r := g.arith(op, a, b)
			res = cVal{S: g.convTo(r, ct), T: ct}
		}
		g.assign(lv, res)
		return res
	case "ConditionalOperator":
		c := g.rvalue(n.Inner[0])
		if c.Const != nil {
			if c.Const.Sign() != 0 {
				return g.rvalueOpt(n.Inner[1], discard)
			}
			return g.rvalueOpt(n.Inner[2], discard)
		}
		cb := g.convTo(c, types.Typ[types.Bool])
		// both arms must be free of side effects (true for the macros used in the repository)
		a := g.rvalue(n.Inner[1])
		b := g.rvalue(n.Inner[2])
		t := g.ctype(n.Type)
		return cVal{S: sIte(cb, g.convTo(a, t), g.convTo(b, t)), T: t}
	case "ArraySubscriptExpr", "MemberExpr":
		lv := g.lvalue(n)
		if isComposite(lv.T) {
			return cVal{S: lv.S, T: lv.T}
		}
		return cVal{S: g.loadVal(lv.S, lv.T), T: unwrapLocal(lv.T)}
	case "UnaryExprOrTypeTraitExpr":
		// sizeof: in cells of the abstract memory model (bytes for byte arrays)
		var t types.Type
		if n.ArgType != nil {
			t = g.ctype(n.ArgType)
		} else if len(n.Inner) > 0 {
			inner := n.Inner[0]
			for inner.Kind == "ParenExpr" {
				inner = inner.Inner[0]
			}
			t = g.ctype(inner.Type)
		} else {
			g.cfail("sizeof without operand")
		}
		return g.lit(big.NewInt(g.L.Size(t)), g.ctype(n.Type))
	case "CallExpr":
		return g.call(n)
	}
	g.cfail("unsupported expression %s", n.Kind)
	return cVal{}
}

func (g *CGen) constIn(v *big.Int, t types.Type) (*big.Int, bool) {
	b, ok := t.Underlying().(*types.Basic)
	if !ok {
		return nil, false
	}
	w, signed := intBits(b)
	if w == 0 {
		return nil, false
	}
	lo, hi := intRange(w, signed)
	if v.Cmp(lo) >= 0 && v.Cmp(hi) <= 0 {
		return v, true
	}
	m := new(big.Int).Mod(v, pow2(w))
	if signed && m.Cmp(hi) > 0 {
		m.Sub(m, pow2(w))
	}
	return m, true
}

func promote(a, b types.Type) types.Type {
	// usual arithmetic conversions of C for the operands of a compound assignment (clang has made them explicit
	// on the right operand only): integer promotion to int, then the wider type; at equal width unsigned wins
	ab, ok1 := a.Underlying().(*types.Basic)
	bb, ok2 := b.Underlying().(*types.Basic)
	if !ok1 || !ok2 {
		return a
	}
	wa, sa := intBits(ab)
	wb, sb := intBits(bb)
	if wa < 32 {
		a, wa, sa = types.Typ[types.Int32], 32, true
	}
	if wb < 32 {
		b, wb, sb = types.Typ[types.Int32], 32, true
	}
	switch {
	case wb > wa:
		return b
	case wa > wb:
		return a
	case !sa:
		return a
	case !sb:
		return b
	}
	return a
}

func (g *CGen) assign(lv cVal, v cVal) {
	g.checkWrite(lv.S, g.L.Size(lv.T), token.NoPos)
	if isComposite(lv.T) {
		src := g.cur.clone()
		g.copyCells(g.cur, lv.S, src, v.S, lv.T)
		return
	}
	g.storeVal(lv.S, lv.T, g.convTo(v, lv.T))
}

func (g *CGen) unary(n *cNode, discard bool) cVal {
	switch n.Opcode {
	case "&":
		lv := g.lvalue(n.Inner[0])
		return cVal{S: lv.S, T: types.NewPointer(lv.T)}
	case "*":
		lv := g.lvalue(n)
		if isComposite(lv.T) {
			return cVal{S: lv.S, T: lv.T}
		}
		return cVal{S: g.loadVal(lv.S, lv.T), T: unwrapLocal(lv.T)}
	case "!":
		v := g.rvalue(n.Inner[0])
		if v.Const != nil {
			r := int64(0)
			if v.Const.Sign() == 0 {
				r = 1
			}
			return g.lit(big.NewInt(r), types.Typ[types.Int32])
		}
		b := g.convTo(v, types.Typ[types.Bool])
		return cVal{S: sIte(sNot(b), g.M.IntLit(big.NewInt(1), types.Typ[types.Int32]), g.M.IntLit(bigZero, types.Typ[types.Int32])), T: types.Typ[types.Int32]}
	case "-":
		v := g.rvalue(n.Inner[0])
		if v.Const != nil {
			return g.lit(new(big.Int).Neg(v.Const), v.T)
		}
		return g.arith("-", g.lit(bigZero, v.T), v)
	case "~":
		v := g.rvalue(n.Inner[0])
		if v.Const != nil {
			if c, ok := g.constIn(new(big.Int).Not(v.Const), v.T); ok {
				return g.lit(c, v.T)
			}
		}
		if g.M.BV {
			return cVal{S: app("bvnot", v.S), T: v.T}
		}
		g.cfail("~ on a non-constant in int mode")
	case "++", "--":
		lv := g.lvalue(n.Inner[0])
		cur := cVal{S: g.loadVal(lv.S, lv.T), T: unwrapLocal(lv.T)}
		op := "+"
		if n.Opcode == "--" {
			op = "-"
		}
		var next cVal
		if _, isPtr := deref(lv.T); isPtr {
			next = g.ptrArith(op, cur, g.lit(big.NewInt(1), types.Typ[types.Int32]))
		} else {
			next = g.arith(op, cur, g.lit(big.NewInt(1), lv.T))
		}
		// name the old value before the store (post-increment returns it)
		old := cur
		if n.IsPostfix && !discard {
			c := g.freshConst("old", g.sortOf(lv.T))
			g.assume(sEq(c, cur.S))
			old = cVal{S: c, T: lv.T}
		}
		g.assign(lv, next)
		if n.IsPostfix {
			return old
		}
		return next
	}
	g.cfail("unsupported unary operator %s", n.Opcode)
	return cVal{}
}

func (g *CGen) ptrArith(op string, p cVal, k cVal) cVal {
	et, _ := deref(p.T)
	i := g.convTo(k, typInt)
	off := g.M.ixMulC(i, g.L.Size(et))
	if op == "-" {
		if g.M.BV {
			off = app("bvneg", off)
		} else {
			off = app("-", off)
		}
	}
	return cVal{S: g.ptrAdd(p.S, off), T: p.T}
}

func (g *CGen) binary(n *cNode, discard bool) cVal {
	op := n.Opcode
	switch op {
	case "=":
		lv := g.lvalue(n.Inner[0])
		rv := g.rvalue(n.Inner[1])
		g.assign(lv, rv)
		return cVal{S: g.convTo(rv, lv.T), T: lv.T}
	case ",":
		g.rvalueOpt(n.Inner[0], true)
		return g.rvalueOpt(n.Inner[1], discard)
	case "&&", "||":
		a := g.rvalue(n.Inner[0])
		ab := g.convTo(a, types.Typ[types.Bool])
		// the right operand is evaluated only if needed: its obligations are guarded
		pc0 := g.curPC
		if op == "&&" {
			g.curPC = g.namePC(sAnd(pc0, ab))
		} else {
			g.curPC = g.namePC(sAnd(pc0, sNot(ab)))
		}
		b := g.rvalue(n.Inner[1])
		bb := g.convTo(b, types.Typ[types.Bool])
		g.curPC = pc0
		var r string
		if op == "&&" {
			r = sAnd(ab, bb)
		} else {
			r = sOr(ab, bb)
		}
		return cVal{S: sIte(r, g.M.IntLit(big.NewInt(1), types.Typ[types.Int32]), g.M.IntLit(bigZero, types.Typ[types.Int32])), T: types.Typ[types.Int32]}
	}
	a := g.rvalue(n.Inner[0])
	b := g.rvalue(n.Inner[1])
	_, aPtr := deref(a.T)
	_, bPtr := deref(b.T)
	switch op {
	case "==", "!=", "<", "<=", ">", ">=":
		var c string
		if aPtr || bPtr {
			if op == "==" || op == "!=" {
				c = g.eqTerm(a.S, g.convTo(b, a.T))
				if op == "!=" {
					c = sNot(c)
				}
			} else {
				g.cfail("ordered pointer comparison")
			}
		} else if isCBool(a.T) || isCBool(b.T) {
			c = sEq(g.convTo(a, types.Typ[types.Bool]), g.convTo(b, types.Typ[types.Bool]))
			if op == "!=" {
				c = sNot(c)
			}
		} else {
			if a.Const != nil && b.Const != nil {
				r := a.Const.Cmp(b.Const)
				ok := map[string]bool{"==": r == 0, "!=": r != 0, "<": r < 0, "<=": r <= 0, ">": r > 0, ">=": r >= 0}[op]
				v := int64(0)
				if ok {
					v = 1
				}
				return g.lit(big.NewInt(v), types.Typ[types.Int32])
			}
			c = g.cmp(op, a.S, g.convTo(b, a.T), a.T)
		}
		return cVal{S: sIte(c, g.M.IntLit(big.NewInt(1), types.Typ[types.Int32]), g.M.IntLit(bigZero, types.Typ[types.Int32])), T: types.Typ[types.Int32]}
	}
	if aPtr && (op == "+" || op == "-") && !bPtr {
		return g.ptrArith(op, a, b)
	}
	if bPtr && op == "+" {
		return g.ptrArith(op, b, a)
	}
	return g.arith(op, a, b)
}

// arith performs an integer operation in the (already converted) common type of the operands.
func (g *CGen) arith(op string, a, b cVal) cVal {
	t := a.T
	if isCBool(t) {
		t = types.Typ[types.Int32]
		a = cVal{S: g.convTo(a, t), T: t}
		b = cVal{S: g.convTo(b, t), T: t, Const: b.Const}
	}
	bb, ok := t.Underlying().(*types.Basic)
	if !ok || bb.Info()&types.IsInteger == 0 {
		g.cfail("arithmetic on %v", t)
	}
	w, signed := intBits(bb)
	if a.Const != nil && b.Const != nil {
		var r *big.Int
		x, y := a.Const, b.Const
		switch op {
		case "+":
			r = new(big.Int).Add(x, y)
		case "-":
			r = new(big.Int).Sub(x, y)
		case "*":
			r = new(big.Int).Mul(x, y)
		case "/":
			if y.Sign() != 0 {
				r = new(big.Int).Quo(x, y)
			}
		case "%":
			if y.Sign() != 0 {
				r = new(big.Int).Rem(x, y)
			}
		case "<<":
			r = new(big.Int).Lsh(x, uint(y.Int64()))
		case ">>":
			r = new(big.Int).Rsh(x, uint(y.Int64()))
		case "&":
			r = new(big.Int).And(x, y)
		case "|":
			r = new(big.Int).Or(x, y)
		case "^":
			r = new(big.Int).Xor(x, y)
		}
		if r != nil {
			if c, ok := g.constIn(r, t); ok {
				return g.lit(c, t)
			}
		}
	}
	bS := g.convTo(b, t)
	if op == "<<" || op == ">>" {
		bS = b.S
	}
	if g.M.BV {
		bt := b.T
		if op != "<<" && op != ">>" {
			bt = t
		}
		return cVal{S: g.binopBV(op, a.S, bS, t, bt), T: t}
	}
	lo, hi := intRange(w, signed)
	switch op {
	case "+", "-", "*":
		raw := app(op, a.S, bS)
		if signed {
			// signed overflow is undefined behaviour in C: it must not happen
			g.obl("overflow", "", sAnd(app("<=", g.M.IntLit(lo, nil), raw), app("<=", raw, g.M.IntLit(hi, nil))))
			return cVal{S: raw, T: t}
		}
		if g.spec.NoWrap && op != "-" {
			// unsigned wrap-around is defined in C, but this function's contract says it relies on it never happening
			g.obl("nowrap", "", app("<=", raw, g.M.IntLit(hi, nil)))
			return cVal{S: raw, T: t}
		}
		return cVal{S: g.binop(op, a.S, bS, t, t), T: t}
	case "/", "%":
		g.obl("div0", "", sNot(sEq(bS, "0")))
		return cVal{S: g.binop(op, a.S, bS, t, t), T: t}
	case "&":
		if b.Const != nil && b.Const.Sign() >= 0 {
			return cVal{S: g.andConst(a.S, b.Const), T: t}
		}
		if a.Const != nil && a.Const.Sign() >= 0 {
			return cVal{S: g.andConst(bS, a.Const), T: t}
		}
		return cVal{S: app("band_int", a.S, bS), T: t}
	case "|":
		if b.Const != nil && b.Const.Sign() >= 0 {
			return cVal{S: app("-", app("+", a.S, g.M.IntLit(b.Const, nil)), g.andConst(a.S, b.Const)), T: t}
		}
		return cVal{S: app("bor_int", a.S, bS), T: t}
	case "^":
		return cVal{S: app("bxor_int", a.S, bS), T: t}
	case "<<", ">>":
		if b.Const != nil {
			return cVal{S: g.binop(op, a.S, b.Const.String(), t, t), T: t}
		}
		return cVal{S: g.binop(op, a.S, bS, t, t), T: t}
	}
	g.cfail("unsupported binary operator %s", op)
	return cVal{}
}

// andConst renders x & c exactly for a non-negative x and constant c as a sum over the runs of one-bits of c.
func (g *CGen) andConst(x string, c *big.Int) string {
	if c.Sign() == 0 {
		return "0"
	}
	var parts []string
	n := c.BitLen()
	i := 0
	for i < n {
		if c.Bit(i) == 0 {
			i++
			continue
		}
		j := i
		for j < n && c.Bit(j) == 1 {
			j++
		}
		// bits [i, j)
		run := app("mod", app("div", x, pow2(i).String()), pow2(j-i).String())
		if i > 0 {
			run = app("*", run, pow2(i).String())
		} else {
			run = app("mod", x, pow2(j).String())
		}
		parts = append(parts, run)
		i = j
	}
	if len(parts) == 1 {
		return parts[0]
	}
	return app("+", parts...)
}

// ---------- calls ----------

func (g *CGen) call(n *cNode) cVal {
	fnode := n.Inner[0]
	for fnode.Kind == "ImplicitCastExpr" || fnode.Kind == "ParenExpr" {
		fnode = fnode.Inner[0]
	}
	if fnode.Kind != "DeclRefExpr" || fnode.Ref == nil {
		g.cfail("indirect call")
	}
	name := fnode.Ref.Name
	var args []cVal
	for _, a := range n.Inner[1:] {
		args = append(args, g.rvalue(a))
	}
	rt := g.ctype(n.Type)
	switch name {
	case "malloc":
		// the result may be NULL exactly where the code tests it; here: allocation succeeds (see DESIGN §3)
		o := g.newObject(g.cur)
		g.assume(sEq(app("objsize", o), g.convTo(args[0], typInt)))
		g.assume(sEq(app("objtype", o), "0"))
		return cVal{S: g.mkptr(o, g.M.IxLit(0)), T: rt}
	case "free":
		return cVal{T: ctVoid}
	case "memset":
		p := args[0]
		cnt := g.convTo(args[2], typInt)
		g.obl("valid", "memset", sOr(g.M.ixLe(cnt, g.M.IxLit(0)), sAnd(g.nonNil(p.S), g.M.ixLe(g.M.IxLit(0), pOff(p.S)), g.M.ixLe(g.M.ixAdd(pOff(p.S), cnt), app("objsize", pObj(p.S))))))
		reg := Region{Obj: pObj(p.S), Lo: pOff(p.S), Hi: g.M.ixAdd(pOff(p.S), cnt), T: types.Typ[types.Uint8]}
		g.checkRegionWrite(reg, token.NoPos, "memset")
		g.havocRegion(g.cur, reg)
		// all written cells hold the (byte) value
		q := g.fresh("k")
		val := g.convTo(args[1], types.Typ[types.Uint8])
		bs := g.L.CellSort(types.Typ[types.Uint8])
		g.assumePC(fmt.Sprintf("(forall ((%s %s)) (=> (and %s %s) (= (select (select %s %s) %s) %s)))", q, g.M.IX(),
			g.M.ixLe(pOff(p.S), q), g.M.ixLt(q, g.M.ixAdd(pOff(p.S), cnt)), g.heapTerm(g.cur, bs), pObj(p.S), q, val))
		return cVal{S: p.S, T: rt}
	case "memcpy":
		d, s := args[0], args[1]
		cnt := g.convTo(args[2], typInt)
		for _, p := range []cVal{d, s} {
			g.obl("valid", "memcpy", sOr(g.M.ixLe(cnt, g.M.IxLit(0)), sAnd(g.nonNil(p.S), g.M.ixLe(g.M.IxLit(0), pOff(p.S)), g.M.ixLe(g.M.ixAdd(pOff(p.S), cnt), app("objsize", pObj(p.S))))))
		}
		reg := Region{Obj: pObj(d.S), Lo: pOff(d.S), Hi: g.M.ixAdd(pOff(d.S), cnt), T: types.Typ[types.Uint8]}
		g.checkRegionWrite(reg, token.NoPos, "memcpy")
		pre := g.cur.clone()
		g.copyRange(g.cur, d.S, pre, s.S, g.L.CellSort(types.Typ[types.Uint8]), 0, cnt, -1)
		return cVal{S: d.S, T: rt}
	}
	key := "C." + name
	spec := g.DB.Funcs[key]
	ce := &callee{key: key, spec: spec}
	if spec != nil {
		g.UsedSpecs[key] = true
	}
	names := g.P.CParams[name]
	if spec != nil && len(spec.Params) > 0 {
		names = spec.Params
	}
	pre := g.cur
	env := &SpecEnv{g: g.Gen, vars: map[string]SVal{}, st: pre, old: pre, alloc0: pre.Alloc}
	g.addEnumVars(env)
	for i, a := range args {
		v := SVal{S: a.S, T: a.T, Sort: g.sortOf(a.T)}
		if i < len(names) {
			env.vars[names[i]] = v
		}
		env.vars[fmt.Sprintf("arg%d", i)] = v
	}
	post := pre.clone()
	short := name
	if spec == nil {
		// default leaf contract: pointer arguments are valid, the callee writes only through its non-const pointers
		g.Warnings = append(g.Warnings, "default leaf contract (const-based frame, result unconstrained) for C function "+name)
		pts := fnode.Ref.Type
		ptypes := splitCParams(pts)
		for i, a := range args {
			if et, ok := deref(a.T); ok {
				g.obl("requires", short+".non-null-arg", g.nonNil(a.S))
				if i < len(ptypes) && !strings.Contains(ptypes[i], "const") {
					reg := Region{Obj: pObj(a.S), Lo: pOff(a.S), Hi: g.M.ixAdd(pOff(a.S), g.M.IxLit(g.L.Size(et))), T: et}
					g.checkRegionWrite(reg, token.NoPos, short)
					g.havocRegion(post, reg)
				}
			}
		}
	} else {
		for _, c := range spec.Requires {
			s, err := env.EvalBool(c.Expr)
			if err != nil {
				specFail("%s: requires of %s: %v", c.Pos, key, err)
			}
			g.obl("requires", short+"."+labelOr(c.Label, c.Src), s)
		}
		if spec.AssignsAll {
			g.havocAll(post)
		}
		for _, a := range spec.Assigns {
			r, err := env.EvalRegion(a)
			if err != nil {
				specFail("assigns of %s: %s: %v", key, exprString(a), err)
			}
			g.checkRegionWrite(r, token.NoPos, short)
			g.havocRegion(post, r)
		}
	}
	if spec == nil || !spec.Pure {
		a := g.freshConst("alloc", "Int")
		g.assume(app(">=", a, pre.Alloc))
		post.Alloc = a
	}
	g.cur = post
	res := cVal{T: rt}
	envPost := env.with(post)
	envPost.old = pre
	if rt != ctVoid {
		r := g.freshConst("r_"+sanitize(short), g.sortOf(rt))
		g.assumePC(g.wellFormed(r, rt, post.Alloc))
		res.S = r
		nv := map[string]SVal{}
		for k, v := range env.vars {
			nv[k] = v
		}
		nv["result"] = SVal{S: r, T: rt, Sort: g.sortOf(rt)}
		nv["result0"] = nv["result"]
		envPost.vars = nv
	}
	if spec != nil {
		for _, c := range append(append([]Clause{}, spec.Ensures...), spec.Assumed...) {
			s, err := envPost.EvalBool(c.Expr)
			if err != nil {
				specFail("%s: ensures of %s: %v", c.Pos, key, err)
			}
			g.assumePC(s)
		}
		if len(spec.Assumed) > 0 {
			g.Warnings = append(g.Warnings, fmt.Sprintf("assumed (unverified) postcondition of %s used", key))
		}
	}
	_ = ce
	return res
}

// splitCParams splits the parameter list of a C function type "ret (a, b, c)".
func splitCParams(t *cType) []string {
	if t == nil {
		return nil
	}
	q := t.QualType
	i := strings.Index(q, "(")
	j := strings.LastIndex(q, ")")
	if i < 0 || j < i {
		return nil
	}
	var out []string
	for _, p := range strings.Split(q[i+1:j], ",") {
		out = append(out, strings.TrimSpace(p))
	}
	return out
}
