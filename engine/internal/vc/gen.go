package vc

import (
	"fmt"
	"go/token"
	"go/types"
	"sort"
	"strings"

	"golang.org/x/tools/go/ssa"
)

// Tier is the verification tier of the current run ("quick" skips clauses marked slow).
var Tier = "thorough"

// Obl is one proof obligation: Goal must be valid given the first Prefix commands.
type Obl struct {
	Name    string
	Kind    string
	Label   string
	Pos     string
	Func    string
	Prefix  int
	Goal    string
	Canary  bool // expected to be refutable (vacuity guard)
	ExpectDead bool // canary of a return the contract declares unreachable (dead-return)
	Cover   bool // expected satisfiable: goal is a reachability condition
	Result  string
	Solver  string
	Seconds float64
	Model   string
	Props   []string
	Candidate bool // Model comes from a weakened query
	Retried bool
	Local   []string // declarations and assumptions local to this obligation (lemma proofs)
	Long    bool // larger solver budget (clause marked `long`)
	Presolved bool // decided by the generator itself (no solver query)
}

// State is the symbolic heap at a program point. Heaps absent from H are the entry heaps.
type State struct {
	H     map[string]string // heap name -> term
	Alloc string
}

func (s *State) clone() *State {
	n := &State{H: map[string]string{}, Alloc: s.Alloc}
	for k, v := range s.H {
		n.H[k] = v
	}
	return n
}

// Region is a set of cells [Lo,Hi) of object Obj (all cells when Whole), restricted to heap sorts Sorts (nil = all).
type Region struct {
	AllObjs bool // every object (restricted to Sorts): a loop effect that cannot be attributed to one object
	Cells  int64  // > 0: the region is exactly the Cells cells of one value of type T starting at (Obj, Lo)
	Owner  string // with TypeID: only the objects whose ghost owner is this object id ("owned(m, T)")
	Map    bool   // the object is a map: only the map heaps are concerned
	TypeID string // if set: all cells of all objects whose dynamic type has this id ("alltyped(T)")
	Obj    string
	Lo, Hi string
	Whole  bool
	T      types.Type // static type of the region's content (element or struct type), may be nil
	Sorts  []string
	Src    string
}

type Gen struct {
	P    *Program
	DB   *SpecDB
	L    *Layout
	M    Mode
	fn   *ssa.Function
	spec *FuncSpec
	key  string

	decls   []string
	declSet map[string]bool
	cmds    []string
	obls    []*Obl
	nfresh  int
	heaps   map[string]string // heap name -> full sort (all heaps used)
	cellHeaps map[string]string // heap name -> cell sort

	pc       map[*ssa.BasicBlock]string
	outSt    map[*ssa.BasicBlock]*State
	edge     map[[2]int]string // (from,to) -> condition term
	entry    *State
	cur      *State
	curPC    string
	curBlock *ssa.BasicBlock

	strlits  map[string]string
	typeIDs  map[string]int
	typeByID []types.Type
	ifaces   map[string]*types.Interface
	globals  map[*ssa.Global]int
	funcIDs  map[string]int
	closures map[ssa.Value]*ssa.MakeClosure

	loops     []*Loop
	loopOf    map[*ssa.BasicBlock]*Loop // header -> loop
	backEdges map[[2]int]bool
	order     []*ssa.BasicBlock

	fnAssigns []Region
	assignAll bool
	defers    []*ssa.Defer
	deferPC   map[*ssa.Defer]string
	tupleVals map[ssa.Value][]string
	oblCount  map[string]int
	Warnings  []string
	specEnv   *SpecEnv
	nameVals  map[string][]ssa.Value // source variable name -> values (from DebugRef)
	extraTrusted map[string]bool
	UsedSpecs map[string]bool
	frozen   bool
	nret     int
	retOrd   map[*ssa.Return]int // source-order ordinal of every return statement
	valPrefix string     // prefix of value and block names while a callee is translated in place
	inlStack []*inlFrame
	inlRoot  *ssa.Function
	inlCount int
	isC      bool
	cPos     string
	cLoopStack []*Loop
	nameAddrs map[string]ssa.Value
	rangeAssumed map[string]bool
	shapeErrors []string
	errClasses []string
	prelude  []string // assertions that hold globally (placed before all commands)
	gathers  map[string]string // defining term of a gathered sequence -> its array constant
	roObjs   []string          // objects of the parameters of a function that assigns nothing (never written)
}

type Loop struct {
	Header  *ssa.BasicBlock
	Blocks  map[*ssa.BasicBlock]bool
	Ordinal int
	MinPos  token.Pos
	Spec    *LoopSpec
	// filled during generation
	EntrySt  *State
	HeadSt   *State
	PhiTerms map[*ssa.Phi]string
	DecVal   string
	Regions  []Region
	Checked  bool
}

func (g *Gen) fresh(prefix string) string {
	g.nfresh++
	return fmt.Sprintf("%s!%d", prefix, g.nfresh)
}

func (g *Gen) declare(name, sort string) string {
	if !g.declSet[name] {
		g.declSet[name] = true
		g.decls = append(g.decls, fmt.Sprintf("(declare-const %s %s)", name, sort))
	}
	return name
}

func (g *Gen) declareFun(name string, args []string, ret string) {
	if !g.declSet[name] {
		g.declSet[name] = true
		g.decls = append(g.decls, fmt.Sprintf("(declare-fun %s (%s) %s)", name, strings.Join(args, " "), ret))
	}
}

func (g *Gen) freshConst(prefix, sort string) string {
	return g.declare(g.fresh(prefix), sort)
}

func (g *Gen) assume(f string) {
	if f == "true" {
		return
	}
	g.cmds = append(g.cmds, "(assert "+f+")")
}

// assumePC adds an assumption guarded by the current path condition.
func (g *Gen) assumePC(f string) { g.assume(sImp(g.curPC, f)) }

func (g *Gen) posOf(p token.Pos) string {
	if !p.IsValid() {
		return ""
	}
	pp := g.P.SSA.Fset.Position(p)
	return fmt.Sprintf("%s:%d", strings.TrimPrefix(pp.Filename, g.P.Dir+"/"), pp.Line)
}

// oblige records an obligation cond under the current path condition and then assumes it.
func (g *Gen) oblige(kind, label string, pos token.Pos, cond string) *Obl {
	if g.isC {
		return g.obligeAt(kind, label, g.cPos, g.curPC, cond)
	}
	return g.obligeAt(kind, label, g.posOf(pos), g.curPC, cond)
}

// splitConj splits a goal into its top-level conjuncts (through implications), so that each
// obligation stays small: (and a b) -> a, b ; (=> p (and a b)) -> (=> p a), (=> p b).
func splitConj(t string, depth int) []string {
	if depth > 8 || !strings.HasPrefix(t, "(") {
		return []string{t}
	}
	f, as := topArgs(t)
	switch f {
	case "forall":
		// (forall (binders) body) with no pattern annotation: distribute over the conjuncts of body
		if len(as) == 2 && !strings.HasPrefix(as[1], "(!") {
			parts := splitConj(as[1], depth+1)
			if len(parts) > 1 {
				var out []string
				for _, p := range parts {
					out = append(out, "(forall "+as[0]+" "+p+")")
				}
				return out
			}
		}
		return []string{t}
	case "and":
		var out []string
		for _, a := range as {
			out = append(out, splitConj(a, depth)...)
		}
		return out
	case "=>":
		if len(as) == 2 {
			var out []string
			for _, q := range splitConj(as[1], depth+1) {
				out = append(out, sImp(as[0], q))
			}
			return out
		}
	}
	return []string{t}
}

func (g *Gen) obligeAt(kind, label, pos, pc, cond string) *Obl {
	switch kind {
	case "ensures", "requires", "inv-entry", "inv-preserved":
		if parts := splitConj(cond, 0); len(parts) > 1 && len(parts) <= 600 {
			var last *Obl
			for i, p := range parts {
				if o := g.obligeAt1(kind, fmt.Sprintf("%s.%d", label, i+1), pos, pc, p); o != nil {
					last = o
				}
			}
			return last
		}
	}
	return g.obligeAt1(kind, label, pos, pc, cond)
}

func (g *Gen) obligeAt1(kind, label, pos, pc, cond string) *Obl {
	goal := sImp(pc, cond)
	if goal == "true" {
		return nil
	}
	id := label
	if id == "" {
		g.oblCount[kind]++
		id = fmt.Sprintf("%s#%d", kind, g.oblCount[kind])
	} else {
		g.oblCount[kind+":"+label]++
		if n := g.oblCount[kind+":"+label]; n > 1 {
			id = fmt.Sprintf("%s@%d", label, n)
		}
		id = kind + ":" + id
	}
	o := &Obl{Name: g.key + ":" + id, Kind: kind, Label: label, Pos: pos, Func: g.key, Prefix: len(g.cmds), Goal: goal}
	for l := range longLabels {
		if label == l || strings.HasSuffix(label, "."+l) || strings.Contains(label, "."+l+".") || strings.HasPrefix(label, l+".") {
			o.Long = true
		}
	}
	g.obls = append(g.obls, o)
	if cond != "false" {
		g.assume(goal)
	}
	return o
}

// ---------- heaps ----------

func (g *Gen) heapFor(sort string) string {
	h := heapName(sort)
	if _, ok := g.heaps[h]; !ok {
		g.heaps[h] = g.L.HeapSort(sort)
		g.cellHeaps[h] = sort
		g.declare(h+"@0", g.L.HeapSort(sort))
		if g.frozen {
			g.unsupported("heap %s discovered after the prepass", h)
		}
		// every reference stored in the entry heap points to an object that exists at entry
		cell := "(select (select " + h + "@0 o!q) i!q)"
		var wf string
		switch sort {
		case "Ptr":
			wf = app("<=", pObj(cell), "alloc@0")
		case "Slice":
			wf = sAnd(app("<=", pObj(app("sl.ptr", cell)), "alloc@0"),
				g.M.ixLe(g.M.IxLit(0), app("sl.len", cell)), g.M.ixLe(app("sl.len", cell), app("sl.cap", cell)),
				g.M.ixLe(g.M.IxLit(0), pOff(app("sl.ptr", cell))))
		case "Iface":
			wf = sAnd(app("<=", pObj(app("if.val", cell)), "alloc@0"), app("<=", "0", app("if.dyn", cell)))
		}
		if wf != "" {
			// (only for the objects that exist at entry: cells of later objects are described by the code that creates them)
			g.prelude = append(g.prelude, fmt.Sprintf("(assert (forall ((o!q Int) (i!q %s)) (! (=> (<= o!q alloc@0) %s) :pattern (%s))))", g.M.IX(), wf, cell))
		}
	}
	return h
}

// rawHeap registers a heap with an arbitrary sort (maps) and returns its current term.
func (g *Gen) rawHeap(st *State, name, fullSort string) string {
	if _, ok := g.heaps[name]; !ok {
		g.heaps[name] = fullSort
		g.declare(name+"@0", fullSort)
	}
	if t, ok := st.H[name]; ok {
		return t
	}
	return name + "@0"
}

func (g *Gen) setRawHeap(st *State, name string, term string) {
	n := g.freshConst(name, g.heaps[name])
	g.assume(sEq(n, term))
	st.H[name] = n
}

func (g *Gen) mapDom(st *State, ks string) string {
	return g.rawHeap(st, "M_dom_"+heapName(ks)[2:], fmt.Sprintf("(Array Int (Array %s Bool))", ks))
}
func (g *Gen) mapDomName(ks string) string { return "M_dom_" + heapName(ks)[2:] }
func (g *Gen) mapVal(st *State, ks, vs string) string {
	return g.rawHeap(st, g.mapValName(ks, vs), fmt.Sprintf("(Array Int (Array %s %s))", ks, vs))
}
func (g *Gen) mapValName(ks, vs string) string { return "M_val_" + heapName(ks)[2:] + "_" + heapName(vs)[2:] }
func (g *Gen) mapCard(st *State) string { return g.rawHeap(st, "M_card", "(Array Int Int)") }

func (g *Gen) heapTerm(st *State, sort string) string {
	h := g.heapFor(sort)
	if t, ok := st.H[h]; ok {
		return t
	}
	return h + "@0"
}

func pObj(p string) string { return app("p.obj", p) }
func pOff(p string) string { return app("p.off", p) }

func (g *Gen) mkptr(obj, off string) string { return app("mkptr", obj, off) }

func (g *Gen) ptrAdd(p string, k string) string {
	if k == g.M.IxLit(0) {
		return p
	}
	return g.mkptr(pObj(p), g.M.ixAdd(pOff(p), k))
}

func (g *Gen) loadCell(st *State, p string, sort string) string {
	return app("select", app("select", g.heapTerm(st, sort), pObj(p)), pOff(p))
}

func (g *Gen) setHeap(st *State, sort string, term string) {
	h := g.heapFor(sort)
	name := g.freshConst(h, g.L.HeapSort(sort))
	g.assume(sEq(name, term))
	st.H[h] = name
	g.readOnlyFacts(h, name)
}

// readOnlyFacts: in a function whose contract says `assigns nothing`, the objects its pointer and slice parameters
// point to are never written (every write is obliged to go to an object allocated by the call itself), so each new
// version of a data heap holds the entry content at those objects. The fact follows from the frame obligations that
// precede it; it is stated explicitly so that the solver does not have to walk the chain of heap versions.
func (g *Gen) readOnlyFacts(heap, name string) {
	if len(g.roObjs) == 0 || g.cellHeaps[heap] == "" || name == heap+"@0" {
		return
	}
	for _, o := range g.roObjs {
		g.assume(sEq(app("select", name, o), app("select", heap+"@0", o)))
	}
}

func (g *Gen) storeCell(st *State, p string, sort string, v string) {
	ht := g.heapTerm(st, sort)
	g.setHeap(st, sort, app("store", ht, pObj(p), app("store", app("select", ht, pObj(p)), pOff(p), v)))
}

// copyCells copies the cells of type t from src (in state sst) to dst in st.
func (g *Gen) copyCells(st *State, dst string, sst *State, src string, t types.Type) {
	for _, r := range g.L.Ranges(t) {
		g.copyRange(st, dst, sst, src, r.Sort, r.Off, g.M.IxLit(r.Count), r.Count)
	}
}

// copyRange copies n cells of one sort; n is an IX term, nconst its value if statically known (else -1).
func (g *Gen) copyRange(st *State, dst string, sst *State, src string, sort string, off int64, n string, nconst int64) {
	offT := g.M.IxLit(off)
	if nconst >= 0 && nconst <= 8 {
		for k := int64(0); k < nconst; k++ {
			kk := g.M.IxLit(off + k)
			g.storeCell(st, g.ptrAdd(dst, kk), sort, g.loadCell(sst, g.ptrAdd(src, kk), sort))
		}
		return
	}
	ht := g.heapTerm(st, sort)
	srcArr := app("select", g.heapTerm(sst, sort), pObj(src))
	dstArr := app("select", ht, pObj(dst))
	inner := g.freshConst("cp", fmt.Sprintf("(Array %s %s)", g.M.IX(), sort))
	dlo := g.M.ixAdd(pOff(dst), offT)
	slo := g.M.ixAdd(pOff(src), offT)
	i := "i!q"
	inRange := sAnd(g.M.ixLe(dlo, i), g.M.ixLt(i, g.M.ixAdd(dlo, n)))
	g.assume(fmt.Sprintf("(forall ((%s %s)) (! (= (select %s %s) (ite %s (select %s %s) (select %s %s))) :pattern ((select %s %s))))",
		i, g.M.IX(), inner, i, inRange, srcArr, g.M.ixAdd(g.M.ixSub(i, dlo), slo), dstArr, i, inner, i))
	g.setHeap(st, sort, app("store", ht, pObj(dst), inner))
}

// havocRegion replaces the cells of region r by unknown values in st.
func (g *Gen) havocRegion(st *State, r Region) {
	if r.Map {
		for _, h := range g.allHeapNames() {
			if !strings.HasPrefix(h, "M_") {
				continue
			}
			full := g.heaps[h]
			// inner sort: strip "(Array Int " ... ")"
			inner := strings.TrimSuffix(strings.TrimPrefix(full, "(Array Int "), ")")
			fr := g.freshConst("hvm", inner)
			cur := h + "@0"
			if t, ok := st.H[h]; ok {
				cur = t
			}
			g.setRawHeap(st, h, app("store", cur, r.Obj, fr))
		}
		// ownership: objects may leave the map, and only objects allocated meanwhile may join it
		if _, ok := g.cellHeaps["H_GOwn"]; ok {
			old := g.heapTerm(st, "GOwn")
			nh := g.freshConst("H_GOwn", g.L.HeapSort("GOwn"))
			own := func(h string) string { return app("select", app("select", h, "o!q"), g.M.IxLit(0)) }
			g.assume(fmt.Sprintf("(forall ((o!q Int)) (! (and (=> (not (= %s %s)) (or (= (select %s o!q) (select %s o!q)) (and (= %s %s) (> o!q %s)))) (=> (and (= %s %s) (<= o!q %s)) (= %s %s))) :pattern ((select %s o!q))))",
				own(old), r.Obj, nh, old, own(nh), r.Obj, st.Alloc,
				own(nh), r.Obj, st.Alloc, own(old), r.Obj, nh))
			st.H["H_GOwn"] = nh
		}
		return
	}
	if r.Cells > 0 && r.Cells <= 8 && r.T != nil && !r.Whole && r.TypeID == "" && r.Sorts == nil {
		// a small value: one fresh constant per cell (no quantified definition needed)
		for _, cr := range g.L.Ranges(r.T) {
			for k := int64(0); k < cr.Count; k++ {
				fr := g.freshConst("hvc", cr.Sort)
				g.storeCell(st, g.mkptr(r.Obj, g.M.ixAdd(r.Lo, g.M.IxLit(cr.Off+k))), cr.Sort, fr)
			}
		}
		return
	}
	sorts := r.Sorts
	if sorts == nil {
		if r.T != nil && !r.Whole {
			seen := map[string]bool{}
			for _, cr := range g.L.Ranges(r.T) {
				if !seen[cr.Sort] {
					seen[cr.Sort] = true
					sorts = append(sorts, cr.Sort)
				}
			}
		} else {
			// a whole object: its real cells; ghost state attached to an object is named separately (ghost(x))
			for _, hs := range g.allHeapSorts() {
				if hs != "GInt" && hs != "GOwn" && hs != "GLock" {
					sorts = append(sorts, hs)
				}
			}
		}
	}
	for _, s := range sorts {
		ht := g.heapTerm(st, s)
		arrSort := fmt.Sprintf("(Array %s %s)", g.M.IX(), s)
		if r.TypeID != "" {
			fr := g.freshConst("hvt", g.L.HeapSort(s))
			nh := g.freshConst(heapName(s), g.L.HeapSort(s))
			cond := fmt.Sprintf("(= (objtype o!q) %s)", r.TypeID)
			if r.Owner != "" {
				cond = sAnd(cond, sEq(app("select", app("select", g.heapTerm(st, "GOwn"), "o!q"), g.M.IxLit(0)), r.Owner))
			}
			g.assume(fmt.Sprintf("(forall ((o!q Int)) (! (= (select %s o!q) (ite %s (select %s o!q) (select %s o!q))) :pattern ((select %s o!q))))", nh, cond, fr, ht, nh))
			st.H[g.heapFor(s)] = nh
			continue
		}
		if r.Whole {
			fr := g.freshConst("hv", arrSort)
			g.setHeap(st, s, app("store", ht, r.Obj, fr))
			continue
		}
		old := app("select", ht, r.Obj)
		fr := g.freshConst("hv", arrSort)
		inner := g.freshConst("hvr", arrSort)
		i := "i!q"
		in := sAnd(g.M.ixLe(r.Lo, i), g.M.ixLt(i, r.Hi))
		g.assume(fmt.Sprintf("(forall ((%s %s)) (! (= (select %s %s) (ite %s (select %s %s) (select %s %s))) :pattern ((select %s %s))))",
			i, g.M.IX(), inner, i, in, fr, i, old, i, inner, i))
		g.setHeap(st, s, app("store", ht, r.Obj, inner))
	}
}

func (g *Gen) allHeapSorts() []string {
	var ss []string
	for _, s := range g.cellHeaps {
		ss = append(ss, s)
	}
	sort.Strings(ss)
	return ss
}

func (g *Gen) allHeapNames() []string {
	var ss []string
	for h := range g.heaps {
		ss = append(ss, h)
	}
	sort.Strings(ss)
	return ss
}

func (g *Gen) havocAll(st *State) {
	for _, h := range g.allHeapNames() {
		st.H[h] = g.freshConst(h, g.heaps[h])
	}
}

// inRegion: cell (obj,off) of sort lies in r
func (g *Gen) inRegion(p string, r Region) string {
	if r.Map {
		return "false"
	}
	if r.TypeID != "" {
		c := sEq(app("objtype", pObj(p)), r.TypeID)
		if r.Owner != "" {
			c = sAnd(c, sEq(app("select", app("select", g.heapTerm(g.cur, "GOwn"), pObj(p)), g.M.IxLit(0)), r.Owner))
		}
		return c
	}
	if r.Whole {
		return sEq(pObj(p), r.Obj)
	}
	return sAnd(sEq(pObj(p), r.Obj), g.M.ixLe(r.Lo, pOff(p)), g.M.ixLt(pOff(p), r.Hi))
}

func (g *Gen) regionSub(a, b Region) string {
	if a.Map != b.Map {
		return "false"
	}
	if a.Map {
		return sEq(a.Obj, b.Obj)
	}
	if b.TypeID != "" {
		if a.TypeID != "" {
			if a.TypeID != b.TypeID {
				return "false"
			}
			if b.Owner == "" {
				return "true"
			}
			if a.Owner == "" {
				return "false"
			}
			return sEq(a.Owner, b.Owner)
		}
		c := sEq(app("objtype", a.Obj), b.TypeID)
		if b.Owner != "" {
			c = sAnd(c, sEq(app("select", app("select", g.heapTerm(g.cur, "GOwn"), a.Obj), g.M.IxLit(0)), b.Owner))
		}
		return c
	}
	if a.TypeID != "" {
		return "false"
	}
	if b.Whole {
		return sEq(a.Obj, b.Obj)
	}
	if a.Whole {
		return "false"
	}
	return sOr(sNot(g.M.ixLt(a.Lo, a.Hi)), sAnd(sEq(a.Obj, b.Obj), g.M.ixLe(b.Lo, a.Lo), g.M.ixLe(a.Hi, b.Hi)))
}

// ---------- allocation ----------

func (g *Gen) newObject(st *State) string {
	// a fresh identifier above the current watermark. (Not "watermark+1": allocation sites on different
	// paths would then share an identifier, and the facts recorded about them would contradict each other.)
	o := g.freshConst("obj", "Int")
	g.assume(app(">", o, st.Alloc))
	st.Alloc = o
	return o
}

func (g *Gen) zeroObject(st *State, o string, t types.Type) {
	g.assume(sEq(app("objsize", o), g.M.IxLit(g.L.Size(t))))
	seen := map[string]bool{}
	for _, r := range g.L.Ranges(t) {
		if seen[r.Sort] {
			continue
		}
		seen[r.Sort] = true
		g.zeroSort(st, o, r.Sort)
	}
}

func (g *Gen) zeroSort(st *State, o string, s string) {
	ht := g.heapTerm(st, s)
	g.setHeap(st, s, app("store", ht, o, fmt.Sprintf("((as const (Array %s %s)) %s)", g.M.IX(), s, g.L.Zero(s))))
}
