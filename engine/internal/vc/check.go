package vc

import (
	"io"
	"encoding/hex"
	"crypto/sha256"
	"os/exec"
	"encoding/json"
	"flag"
	"fmt"
	"go/types"
	"os"
	"path/filepath"
	"sort"
	"strconv"
	"strings"
	"time"
)

type KnownFinding struct {
	ID          string `json:"id"`
	Property    string `json:"property"`
	Obligation  string `json:"obligation"` // exact obligation name
	Witness     string `json:"witness"`
	Description string `json:"description"`
	Status      string `json:"status"` // "known" or "fixed"
	Commit      string `json:"commit,omitempty"`
}

func loadKnown() []KnownFinding {
	var kf struct {
		Findings []KnownFinding `json:"findings"`
	}
	b, err := os.ReadFile(filepath.Join(VerifDir, "known_findings.json"))
	if err != nil {
		return nil
	}
	if err := json.Unmarshal(b, &kf); err != nil {
		fmt.Fprintln(os.Stderr, "known_findings.json:", err)
		return nil
	}
	return kf.Findings
}

type Evidence struct {
	PropertyID  string         `json:"property_id"`
	Tier        string         `json:"tier"`
	Seed        int            `json:"seed"`
	Level       string         `json:"level"`
	Coverage    map[string]any `json:"coverage"`
	Assumptions []string       `json:"assumptions"`
	WallS       float64        `json:"wall_s"`
	Violations  int            `json:"violations"`
}

func outDir() string {
	if OutDir != "" {
		return OutDir
	}
	return VerifDir
}

func hasProp(s *FuncSpec, prop string) bool {
	for _, p := range s.Props {
		if p == prop {
			return true
		}
	}
	return false
}

func cmdCheck(args []string) int {
	fs := flag.NewFlagSet("check", flag.ExitOnError)
	prop := fs.String("prop", "", "property id")
	tier := fs.String("tier", "", "quick or thorough")
	fs.Parse(args)
	if *tier == "" {
		*tier = os.Getenv("VERIF_TIER")
	}
	if *tier != "thorough" {
		*tier = "quick"
	}
	Tier = *tier
	seed, _ := strconv.Atoi(os.Getenv("VERIF_SEED"))
	t0 := time.Now()
	if *tier == "thorough" && os.Getenv("VCHECK_NESTED") == "" && os.Getenv("VCHECK_SELFTEST") != "0" {
		if f, err := os.CreateTemp("", "vcheck-hashes-*.json"); err == nil {
			f.Close()
			os.Setenv("VCHECK_HASH_OUT", f.Name())
			defer os.Remove(f.Name())
		}
	}
	code, ev := runCheck(*prop, *tier, seed)
	if *tier == "thorough" && code == 0 && os.Getenv("VCHECK_NESTED") == "" && os.Getenv("VCHECK_SELFTEST") != "0" {
		ev.Coverage["selftest"] = selfTest(*prop)
	}
	ev.WallS = time.Since(t0).Seconds()
	os.MkdirAll(filepath.Join(outDir(), "evidence"), 0o755)
	b, _ := json.MarshalIndent(ev, "", " ")
	if err := os.WriteFile(filepath.Join(outDir(), "evidence", *prop+".json"), b, 0o644); err != nil {
		fmt.Fprintln(os.Stderr, err)
		return 2
	}
	return code
}

func runCheck(prop, tier string, seed int) (int, *Evidence) {
	ev := &Evidence{PropertyID: prop, Tier: tier, Seed: seed, Level: "proof", Coverage: map[string]any{}}
	fail := func(format string, a ...any) (int, *Evidence) {
		msg := fmt.Sprintf(format, a...)
		fmt.Fprintln(os.Stderr, "vcheck: engine error:", msg)
		ev.Coverage["explanation"] = "engine error: " + msg
		ev.Coverage["obligations"] = 0
		ev.Coverage["discharged"] = 0
		ev.Coverage["checker_cmd"] = "vcheck check --prop " + prop
		ev.Coverage["trusted_base"] = []string{}
		return 2, ev
	}
	db, err := LoadSpecs()
	if err != nil {
		return fail("%v", err)
	}
	timeout := 10 * time.Second
	if tier == "thorough" {
		timeout = 60 * time.Second
	}
	dir, _ := os.MkdirTemp("", "vcheck-")
	if k := os.Getenv("VCHECK_KEEP"); k != "" {
		// development: keep the queries of the obligations that were not discharged
		os.MkdirAll(k, 0o755)
		dir = k
	} else {
		defer os.RemoveAll(dir)
	}
	stats := &SolveStats{BySolver: map[string]int{}}

	var results []*FuncResult
	usedExtern := map[string]bool{}
	usedC := map[string]bool{}
	warnings := map[string]bool{}
	// The functions checked for a property: those tagged with it, plus (transitively) every callee under contract
	// that has a body in the repository — a caller only sees the callee's contract, so the callee's own obligations
	// are part of what carries the property.
	progs := map[string]*Program{}
	loadCfg := func(tags string) (*Program, error) {
		if P, ok := progs[tags]; ok {
			return P, nil
		}
		P, err := Load(RepoDir, tags)
		if err != nil {
			return nil, fmt.Errorf("loading /repo with tags %s: %v", tags, err)
		}
		if bad := CheckGlobalsImmutable(P, db); len(bad) > 0 {
			return nil, fmt.Errorf("global clauses are not sound: %s", strings.Join(bad, "; "))
		}
		progs[tags] = P
		return P, nil
	}
	done := map[string]bool{}
	var pending []string
	for _, k := range db.SortedKeys() {
		s := db.Funcs[k]
		if hasProp(s, prop) && !s.Trusted && !strings.Contains(k, "#") {
			pending = append(pending, k)
		}
	}
	nTagged := len(pending)
	for len(pending) > 0 {
		k := pending[0]
		pending = pending[1:]
		if done[k] {
			continue
		}
		done[k] = true
		s := db.Funcs[k]
		var r *FuncResult
		if s.IsC {
			if s.NoBody {
				continue
			}
			P, err := loadCfg("verif")
			if err != nil {
				return fail("%v", err)
			}
			r = GenCFunc(P, db, strings.TrimPrefix(k, "C."), s)
			if r.Skipped != "" {
				notApplicable(r)
			}
			r.Tags = "C (clang AST)"
			for _, c := range r.Callees {
				if cs := db.Funcs[c]; cs != nil && (cs.Trusted || cs.NoBody) {
					usedExtern[c] = true
				}
			}
		} else {
			tags := "verif"
			if s.Tags != "" {
				tags += "," + s.Tags
			}
			P, err := loadCfg(tags)
			if err != nil {
				return fail("%v", err)
			}
			fn := P.Funcs[k]
			if fn == nil {
				if strings.HasPrefix(k, "(") && !strings.HasPrefix(k, "(*") && P.isInterfaceMethod(k) {
					continue // contract of an interface method: used at call sites only
				}
				if hasProp(s, prop) {
					return fail("contract for %s: no such function in /repo (tags %s)", k, tags)
				}
				continue
			}
			r = GenFunc(P, db, fn, s)
			if r.Skipped != "" {
				notApplicable(r)
			}
			r.Tags = tags
			for _, c := range r.Callees {
				if cs := db.Funcs[c]; cs != nil && (cs.Trusted || (P.Funcs[c] == nil && !cs.IsC)) {
					usedExtern[c] = true
				}
				if cs := db.Funcs[c]; cs != nil && cs.IsC {
					usedC[c] = true
				}
			}
		}
		results = append(results, r)
		for _, w := range r.Warnings {
			warnings[k+": "+w] = true
		}
		for _, c := range r.Callees {
			cs := db.Funcs[c]
			if cs == nil || done[c] || cs.Trusted || cs.NoBody || len(cs.Props) == 0 || strings.Contains(c, "#") {
				continue
			}
			pending = append(pending, c)
		}
	}
	_ = nTagged
	// Nested replay of a seeded change (selftest): verification is modular, so a function whose generated verification
	// conditions are byte-for-byte those of the tree without the change (the parent run exports their hashes) has the same
	// obligations, all of which were just discharged; only the functions whose conditions differ are solved again.
	if hp := os.Getenv("VCHECK_HASH_OUT"); hp != "" {
		hs := map[string]string{}
		for _, r := range results {
			hs[r.Key] = vcHash(r)
		}
		if b, err := json.Marshal(hs); err == nil {
			os.WriteFile(hp, b, 0o644)
		}
	}
	if hp := os.Getenv("VCHECK_HASH_IN"); hp != "" {
		if b, err := os.ReadFile(hp); err == nil {
			hs := map[string]string{}
			if json.Unmarshal(b, &hs) == nil && len(hs) > 0 {
				var kept []*FuncResult
				for _, r := range results {
					if hs[r.Key] != vcHash(r) {
						kept = append(kept, r)
					}
				}
				results = kept
				if len(results) == 0 {
					// nothing under contract for this property changed: the change is invisible to this check
					ev.Coverage["obligations"] = 0
					ev.Coverage["discharged"] = 0
					ev.Coverage["checker_cmd"] = "vcheck check --prop " + prop + " (nested replay: no function's verification conditions changed)"
					ev.Coverage["trusted_base"] = []string{}
					fmt.Printf("vcheck: %s: no function's verification conditions differ from the unchanged tree\n", prop)
					return 0, ev
				}
			}
		}
	}
	if len(results) == 0 {
		return fail("no function under contract for %s", prop)
	}
	// spec-level lemmas used by the theories: proved here against the bare theory
	if prop == "C16" {
		if P, err := Load(RepoDir, "verif"); err == nil {
			if l := StringSeparationLemma(P); l != nil {
				Lemmas = append(Lemmas, *l)
			}
		}
	}
	if P, err := loadCfg("verif"); err == nil {
		InstallDerivedLemmas(P, db)
	}
	results = append(results, LemmaObligationsFor(prop, results)...)
	if P, err := Load(RepoDir, "verif"); err == nil {
		if r := InvariantWriterObligations(P, db, prop); r != nil {
			results = append(results, r)
		}
	}
	Discharge(results, dir, timeout, 12, stats)
	retried := 0
	if os.Getenv("VCHECK_NESTED") == "" {
		retried = Retry(results, dir, 3*timeout, stats)
	}
	// (the nested replay of a seeded change skips the retry pass: the same functions were just discharged within budget on the
	// tree without the change, so an obligation that is not discharged now fails because of the change)

	known := loadKnown()
	nObl, nOK, nCanary, nCanaryOK := 0, 0, 0, 0
	var violations []*Obl
	var knownHit []string
	var samples []any
	var funcs []string
	vacuous := []string{}
	for _, r := range results {
		funcs = append(funcs, fmt.Sprintf("%s (%s, mode %s, %d loops, tags %s)", r.Key, r.Pos, r.Mode, r.Loops, r.Tags))
		vac := map[*Obl]bool{}
		for _, o := range VacuousCanaries(r) {
			vac[o] = true
		}
		for _, o := range r.Obls {
			if o.Canary {
				nCanary++
				if vac[o] {
					// the program point is unreachable under the contracts: on the unchanged tree every canary is
					// reachable (or the return is declared dead-return), so this is a reachability obligation that
					// held and now fails — reported as a violation of its own, since everything after that point
					// would otherwise pass vacuously
					vacuous = append(vacuous, o.Name)
					o.Result = "program point unreachable: code or contracts contradictory here"
					violations = append(violations, o)
				} else {
					nCanaryOK++
				}
				continue
			}
			nObl++
			if o.Result == "unsat" {
				nOK++
				if len(samples) < 6 && (o.Kind == "ensures" || o.Kind == "inv-preserved" || len(samples) < 2) {
					samples = append(samples, map[string]any{"obligation": o.Name, "kind": o.Kind, "source": o.Pos, "goal": trunc(o.Goal, 600), "solver": o.Solver, "seconds": o.Seconds})
				}
				continue
			}
			matched := false
			for _, kf := range known {
				if kf.Status == "known" && kf.Obligation == o.Name {
					matched = true
					if kf.Property == prop {
						fmt.Printf("KNOWN-FINDING: property=%s %s: %s (witness: %s)\n", prop, kf.ID, kf.Description, kf.Witness)
					}
					// (a finding listed under another property whose functions this check also covers through the callee
					// closure is accounted for in the evidence, but reported by that property's own check only)
					knownHit = append(knownHit, kf.ID+" ("+kf.Property+") "+o.Name)
				}
			}
			if matched {
				nOK++ // accounted for; listed separately below
				continue
			}
			violations = append(violations, o)
		}
	}
	for _, r := range results {
		for _, o := range r.Obls {
			if o.Result == "error" {
				return fail("solver error on %s: %s", o.Name, trunc(o.Model, 300))
			}
		}
	}
	_ = vacuous
	sort.Strings(funcs)
	var assumptions []string
	var ext []string
	for k := range usedExtern {
		ext = append(ext, k)
	}
	sort.Strings(ext)
	for _, k := range ext {
		assumptions = append(assumptions, "assumed contract (trusted, not verified): "+k)
	}
	var cs []string
	for k := range usedC {
		cs = append(cs, k)
	}
	sort.Strings(cs)
	for _, k := range cs {
		assumptions = append(assumptions, "contract of a C function assumed at its cgo call site (not yet proved against the C body by this run): "+k)
	}
	var ws []string
	for w := range warnings {
		ws = append(ws, w)
	}
	sort.Strings(ws)
	for _, w := range ws {
		assumptions = append(assumptions, "engine note: "+w)
	}
	assumptions = append(assumptions, propAssumptions[prop]...)
	assumptions = append(assumptions, commonAssumptions...)
	ev.Assumptions = assumptions
	// obligations: the ones this run claims (an obligation that fails as a listed known finding is reported on its own
	// line and in known_findings_matched, it is neither claimed nor counted as discharged)
	ev.Coverage["obligations"] = nObl - len(knownHit)
	ev.Coverage["obligations_generated"] = nObl
	ev.Coverage["discharged"] = nOK - len(knownHit)
	ev.Coverage["known_findings_matched"] = knownHit
	ev.Coverage["checker_cmd"] = fmt.Sprintf("/verif/bin/vcheck check --prop %s --tier %s  (VC generator over go/ssa of /repo's working tree; solvers z3 5.1.0, z3 4.8.12, cvc5 1.0.x raced per obligation, timeout %s)", prop, tier, timeout)
	ev.Coverage["trusted_base"] = append([]string{"go/types + go/ssa (x/tools v0.50.0) construction of the verified text", "vcheck VC generator", "z3 / cvc5"}, ext...)
	ev.Coverage["functions_under_contract"] = funcs
	ev.Coverage["by_backend"] = stats.BySolver
	ev.Coverage["solver_seconds"] = stats.Seconds
	ev.Coverage["solver_queries"] = stats.Queries
	ev.Coverage["vacuity"] = map[string]any{"canaries": nCanary, "canaries_refutable_as_required": nCanaryOK}
	ev.Coverage["samples"] = samples
	ev.Coverage["retried_with_longer_budget"] = retried
	ev.Coverage["bounded"] = []string{}
	ev.Coverage["explanation"] = propExplanation[prop]
	ev.Violations = len(violations)
	if len(knownHit) > 0 {
		// known findings are reported, not counted as discharged
		ev.Coverage["obligations_failing_as_known_findings"] = len(knownHit)
	}
	if len(violations) == 0 {
		if nOK-len(knownHit) < nObl-len(knownHit) {
			return fail("internal accounting error")
		}
		fmt.Printf("vcheck: %s: %d obligations over %d functions, all discharged (%d known findings); %d vacuity canaries ok; %.1fs solver time\n",
			prop, nObl, len(results), len(knownHit), nCanaryOK, stats.Seconds)
		return 0, ev
	}
	os.MkdirAll(filepath.Join(outDir(), "replay", prop), 0o755)
	var vsamples []any
	for _, o := range violations {
		path := filepath.Join(outDir(), "replay", prop, sanitize(shortKey(o.Name))+".json")
		rep := map[string]any{"property": prop, "obligation": o.Name, "kind": o.Kind, "source": o.Pos, "solver_result": o.Result, "solver": o.Solver,
			"goal": o.Goal, "model": trunc(o.Model, 20000)}
		suffix := ""
		rp := replayModel(o, rep)
		if !rp {
			suffix = " no-failing-input-found"
		}
		b, _ := json.MarshalIndent(rep, "", " ")
		os.WriteFile(path, b, 0o644)
		fmt.Printf("VIOLATION property=%s replay=%s obligation=%s at %s (%s)%s\n", prop, path, o.Name, o.Pos, o.Result, suffix)
		vsamples = append(vsamples, map[string]any{"obligation": o.Name, "source": o.Pos, "result": o.Result})
	}
	ev.Coverage["violations"] = vsamples
	return 1, ev
}

// notApplicable: the contract of a function can no longer be checked against its body (the body left the translated
// subset, or the contract names a variable or loop the body no longer has). On the unchanged tree this never happens;
// after a change to the code it means that every obligation of that function that used to be discharged is now
// undischarged, which is reported as one failing obligation of the function (not as an engine error).
func notApplicable(r *FuncResult) {
	r.Obls = []*Obl{{Name: r.Key + ":contract-no-longer-applies", Kind: "contract-applies", Func: r.Key, Pos: r.Pos,
		Goal: "false", Result: "not generated", Solver: "vcheck", Model: r.Skipped, Presolved: true}}
	r.Decls, r.Cmds = nil, nil
}

func trunc(s string, n int) string {
	if len(s) > n {
		return s[:n] + "…"
	}
	return s
}

// replayModel tries to turn the solver's counterexample into an execution of the real code.
// It returns true if a failing input was demonstrated.
func replayModel(o *Obl, rep map[string]any) bool {
	rep["replay"] = "no concrete replay available for this obligation kind; the failed obligation and the solver output are recorded above"
	if o.Model != "" {
		// the solver's (candidate) values of the function's parameters: a starting point for a manual reproduction.
		// They are NOT replayed automatically (receivers, heaps and assumed library behaviour are part of the model).
		cand := map[string]string{}
		for _, kv := range ModelValues(o.Model, "a_") {
			cand[strings.TrimPrefix(kv[0], "a_")] = kv[1]
		}
		if len(cand) > 0 {
			rep["candidate_parameter_values"] = cand
			rep["candidate_note"] = "values of the scalar parameters in the solver's model (result " + o.Result + "); pointers are (object, offset) pairs of the memory model"
		}
	}
	return false
}

var commonAssumptions = []string{
	"memory model: objects are sequences of abstract cells, one heap per cell sort (Burstall-Bornat); unsafe casts are not modelled",
	"every slice received from outside has fewer than 2^31 elements (lengths are passed to C as int: a longer slice would be truncated; such inputs need > 2 GiB and are outside every property's quantifier); allocation never fails",
	"pointers received from callers or loaded from the heap never point into package-level variables (no address of a package variable is stored or passed around in the module)",
	"append is modelled as copy-to-fresh (the old backing array is dead after x = append(x, ...) at every use in /repo)",
	"strings are an uninterpreted sort with a length; contents of formatted messages are not modelled",
}

var propAssumptions = map[string][]string{
	"C11": {
		"the package-level ECDSA contexts p256Instance / secp256k1Instance hold the curves elliptic.P256() / btcec.S256() with the group orders of NIST P-256 / secp256k1 (global clauses: checked to be written by the package initialiser only, their values are assumed)",
		"representation invariant of ECDSA key objects (non-nil context, curve of the Go key = curve of the context, non-nil coordinates / scalar) is a precondition of Sign / Verify: the constructors that establish it are under contract for C12 / C05 where claimed, otherwise assumed",
		"crypto/ecdsa.Sign / Verify, math/big and crypto/elliptic are assumed contracts (contracts/trusted/ecdsa.spec); the big-endian value of a byte string is unchanged by left zero-padding (assumed arithmetic fact)",
	},
	"C03": {
		"build_tree returns a well-formed tree (treeOK): assumed clause; the probability statement and the equivalence of the scaled leaf check with individual verification are paper steps",
		"the bytes crypto/rand.Read writes are named after the location they are written to (marker semantics; the module never draws twice into one buffer)",
	},
	"C12": {
		"crypto/hkdf.Key is HKDF-SHA256 as a function of (secret, salt, info, length) whatever hash constructor is passed (function values are not compared); crypto/sha256 digests are unspecified (sizes and frames only)",
		"crypto/ecdh P-256 NewPrivateKey/PublicKey/Bytes, btcec ScalarBaseMult compute the public point of the scalar (assumed); the ECDSA contexts' curves are assumed global facts",
	},
	"C02": {
		"Fp12_multi_pairing computes the left fold of gtMul over gtPair of its operands (assumed contract of the BLST glue function)",
		"iteration over a Go map that the loop does not modify visits every key exactly once (count and sum of value lengths of the visited keys never exceed the map's, and equal them at the end)",
	},
	"C04": {
		"E1_add / E2_add / Fr_add / E2_neg / E2_to_affine are BLST primitives (uninterpreted functions); group laws are not assumed, so nothing about order independence is proved",
	},
}
var propExplanation = map[string]string{
	"C02": "contract-based deductive verification of VerifyBLSSignatureOneMessage / ManyMessages (go/ssa) and bls_verifyPerDistinctMessage / bls_verifyPerDistinctKey (clang AST): validation, flattening loops, grouped pairing product",
	"C04": "contract-based deductive verification of the aggregation functions against spec-level folds (sums) of their inputs",
	"C07": "contract-based deductive verification of the DKG handlers: per-participant key-consistency invariants preserved by every handler for every order of arrival",
	"C03": "contract-based deductive verification of the batch verification glue: premarking, coefficients, aggregation tree walk, verdict merge",
	"C12": "contract-based deductive verification of key generation / decoding / public-key computation over assumed contracts of the HKDF and curve libraries",
	"C11": "contract-based deductive verification of the ECDSA glue (Sign, Verify, signature format check) over assumed contracts of crypto/ecdsa and math/big",
}




// isInterfaceMethod: key has the form (pkg.Iface).Method for an interface type of the loaded packages.
func (P *Program) isInterfaceMethod(key string) bool {
	i := strings.Index(key, ").")
	if i < 0 {
		return false
	}
	tn := key[1:i]
	j := strings.LastIndex(tn, ".")
	if j < 0 {
		return false
	}
	for _, sp := range P.SSA.AllPackages() {
		if pkgShort(sp.Pkg.Path()) == tn[:j] {
			if obj, ok := sp.Pkg.Scope().Lookup(tn[j+1:]).(*types.TypeName); ok {
				_, isIface := obj.Type().Underlying().(*types.Interface)
				return isIface
			}
		}
	}
	return false
}


// selfTest (thorough tier): the must-fail corpus. Every seeded change kept for this property under <verif>/seeded/<prop>-k
// (a change that compiles, passes the test suite and breaks the property; written by independent sub-agents, confirmed against
// the real code) is applied to a scratch copy of the repository's current working tree, and the property's quick check is run on
// that copy: it must report a violation. The outcome is recorded in the evidence ("caught" / "MISSED" / "does not apply"); it does
// not change the exit code (a check that misses a known seeded change is weaker than hoped, not wrong about the current tree).
func selfTest(prop string) []map[string]string {
	var out []map[string]string
	dirs, _ := filepath.Glob(filepath.Join(VerifDir, "seeded", prop+"-*"))
	sort.Strings(dirs)
	self, err := os.Executable()
	if err != nil {
		return out
	}
	for _, d := range dirs {
		id := filepath.Base(d)
		patch := filepath.Join(d, "patch.diff")
		if _, err := os.Stat(patch); err != nil {
			continue
		}
		rec := map[string]string{"seed": id}
		tmp, err := os.MkdirTemp("", "vcheck-selftest-")
		if err != nil {
			continue
		}
		work := filepath.Join(tmp, "repo")
		cp := exec.Command("rsync", "-a", "--exclude", ".git", RepoDir+"/", work+"/")
		if b, err := cp.CombinedOutput(); err != nil {
			rec["result"] = "copy failed: " + trunc(string(b), 200)
			out = append(out, rec)
			os.RemoveAll(tmp)
			continue
		}
		ap := exec.Command("git", "apply", "--whitespace=nowarn", patch)
		ap.Dir = work
		if b, err := ap.CombinedOutput(); err != nil {
			// the lines around the change moved (a later fix: commit touched the same function): retry with context fuzz
			pf := exec.Command("patch", "-p1", "-s", "-F3", "--no-backup-if-mismatch", "-i", patch)
			pf.Dir = work
			if b2, err2 := pf.CombinedOutput(); err2 != nil {
				rec["result"] = "does not apply to the current tree: " + trunc(strings.TrimSpace(string(b)+" / "+string(b2)), 200)
				out = append(out, rec)
				os.RemoveAll(tmp)
				continue
			}
			rec["applied"] = "with context fuzz"
		}
		c := exec.Command(self, "check", "--prop", prop, "--tier", "quick")
		c.Env = append(os.Environ(), "VCHECK_NESTED=1", "VCHECK_REPO="+work, "VCHECK_OUT="+filepath.Join(tmp, "out"))
		if hashFile := os.Getenv("VCHECK_HASH_OUT"); hashFile != "" {
			c.Env = append(c.Env, "VCHECK_HASH_IN="+hashFile, "VCHECK_HASH_OUT=")
		}
		b, _ := c.CombinedOutput()
		code := c.ProcessState.ExitCode()
		var first string
		for _, ln := range strings.Split(string(b), "\n") {
			if strings.HasPrefix(ln, "VIOLATION ") {
				if i := strings.Index(ln, "obligation="); i >= 0 {
					first = strings.Fields(ln[i+len("obligation="):])[0]
				}
				break
			}
		}
		switch {
		case code == 1 && first != "":
			rec["result"] = "caught"
			rec["first_failed_obligation"] = first
			fmt.Printf("selftest: %s caught (%s)\n", id, first)
		case code == 0:
			rec["result"] = "MISSED"
			fmt.Printf("SELFTEST-MISS: property=%s seeded change %s is not detected by this check\n", prop, id)
		default:
			rec["result"] = fmt.Sprintf("engine error (exit %d)", code)
			fmt.Printf("selftest: %s: engine error (exit %d)\n", id, code)
		}
		out = append(out, rec)
		os.RemoveAll(tmp)
	}
	return out
}


// vcHash identifies the generated verification conditions of one function.
func vcHash(r *FuncResult) string {
	h := sha256.New()
	for _, d := range r.Decls {
		io.WriteString(h, d)
		io.WriteString(h, "\n")
	}
	for _, c := range r.Cmds {
		io.WriteString(h, c)
		io.WriteString(h, "\n")
	}
	for _, o := range r.Obls {
		fmt.Fprintf(h, "%s|%d|%s|%v\n", o.Name, o.Prefix, o.Goal, o.Local)
	}
	io.WriteString(h, r.Skipped)
	return hex.EncodeToString(h.Sum(nil))
}
