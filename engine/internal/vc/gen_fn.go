package vc

import (
	"fmt"
	"go/ast"
	"go/token"
	"math/big"
	"go/types"
	"sort"
	"strings"

	"golang.org/x/tools/go/ssa"
)

type unsupported struct{ msg string }

func (g *Gen) unsupported(format string, a ...any) {
	panic(unsupported{fmt.Sprintf(format, a...)})
}

// FuncResult is the outcome of generating the verification conditions of one function.
type FuncResult struct {
	Key      string
	Mode     Mode
	Decls    []string
	Cmds     []string
	Obls     []*Obl
	Warnings []string
	Skipped  string // reason if outside the subset
	Spec     *FuncSpec
	Pos      string
	Callees  []string
	Loops    int
	Tags     string
	NoLemmas bool
}

// GenFunc generates the verification conditions of fn against its contract.
func GenFunc(P *Program, DB *SpecDB, fn *ssa.Function, spec *FuncSpec) (res *FuncResult) {
	key := FuncKey(fn)
	if spec == nil {
		spec = &FuncSpec{Key: key, Loops: map[int]*LoopSpec{}}
	}
	g := &Gen{P: P, DB: DB, M: spec.Mode, fn: fn, spec: spec, key: key}
	g.L = NewLayout(g.M)
	g.init()
	res = &FuncResult{Key: key, Mode: g.M, Spec: spec, Pos: g.posOf(fn.Pos())}
	defer func() {
		if r := recover(); r != nil {
			switch r := r.(type) {
			case unsupported:
				res.Skipped = r.msg
			case specError:
				res.Skipped = "contract error: " + r.msg
			default:
				panic(r)
			}
		}
		res.Decls, res.Cmds, res.Obls, res.Warnings = append(g.decls, g.prelude...), g.cmds, g.obls, g.Warnings
		for k := range g.UsedSpecs {
			res.Callees = append(res.Callees, k)
		}
		sort.Strings(res.Callees)
		res.Loops = len(g.loops)
	}()
	g.run()
	return res
}

func (g *Gen) init() {
	g.declSet = map[string]bool{}
	g.heaps = map[string]string{}
	g.cellHeaps = map[string]string{}
	g.pc = map[*ssa.BasicBlock]string{}
	g.outSt = map[*ssa.BasicBlock]*State{}
	g.edge = map[[2]int]string{}
	g.strlits = map[string]string{}
	g.typeIDs = map[string]int{}
	g.ifaces = map[string]*types.Interface{}
	g.globals = map[*ssa.Global]int{}
	g.funcIDs = map[string]int{}
	g.closures = map[ssa.Value]*ssa.MakeClosure{}
	g.loopOf = map[*ssa.BasicBlock]*Loop{}
	g.backEdges = map[[2]int]bool{}
	g.deferPC = map[*ssa.Defer]string{}
	g.tupleVals = map[ssa.Value][]string{}
	g.oblCount = map[string]int{}
	g.nameVals = map[string][]ssa.Value{}
	g.UsedSpecs = map[string]bool{}
	g.rangeAssumed = map[string]bool{}
	g.nameAddrs = map[string]ssa.Value{}
	g.declare("str_empty", "Str")
	g.assume(sEq(app("slen", "str_empty"), g.M.IxLit(0)))
	g.strlits[""] = "str_empty"
	for _, gd := range g.DB.Ghosts {
		if t := g.lookupNamed(gd.TypeName); t != nil {
			var ft types.Type
			src := gd.TypeSrc
			var alen int64 = -1
			if strings.HasPrefix(src, "[") {
				j := strings.Index(src, "]")
				fmt.Sscan(src[1:j], &alen)
				src = src[j+1:]
			}
			if tn, ok := types.Universe.Lookup(src).(*types.TypeName); ok {
				ft = tn.Type()
			}
			if src == "ghostint" {
				ft = ghostInt // a mathematical integer kept in the ghost heap (no program store can touch it)
			}
			if src == "ghostlock" {
				ft = ghostLock
			}
			if _, isIface := t.Underlying().(*types.Interface); isIface && ft != nil {
				ft = ghostInt
			}
			if ft != nil && alen >= 0 {
				ft = types.NewArray(ft, alen)
			}
			if ft == nil {
				g.Warnings = append(g.Warnings, "ghost field: unknown type "+gd.TypeSrc)
				continue
			}
			g.L.Ghost[t.String()] = append(g.L.Ghost[t.String()], GhostField{Name: gd.Field, T: ft})
		} else {
			g.Warnings = append(g.Warnings, "ghost field: unknown type "+gd.TypeName)
		}
	}
}

// lookupNamed finds a named type by "pkgpath.Name" (module path abbreviated as in ShortName).
func (g *Gen) lookupNamed(name string) types.Type {
	i := strings.LastIndex(name, ".")
	if i < 0 {
		return nil
	}
	pp, tn := name[:i], name[i+1:]
	// exact import path first (the standard library's "hash" and the module's own package "hash" share a short name)
	for _, exact := range []bool{true, false} {
		for _, sp := range g.P.SSA.AllPackages() {
			p := sp.Pkg.Path()
			if (exact && p == pp) || (!exact && ShortName(p+".")[:len(ShortName(p+"."))-1] == pp) {
				if obj, ok := sp.Pkg.Scope().Lookup(tn).(*types.TypeName); ok {
					return obj.Type()
				}
			}
		}
	}
	return nil
}

func (g *Gen) run() {
	fn := g.fn
	if len(fn.Blocks) == 0 {
		g.unsupported("no body")
	}
	g.findLoops()
	g.collectNames()

	// entry state
	g.declare("alloc@0", "Int")
	g.assume(app(">=", "alloc@0", "0"))
	g.entry = &State{H: map[string]string{}, Alloc: "alloc@0"}
	g.prepass()
	g.cur = g.entry.clone()
	g.curPC = "true"
	env := g.baseEnv()
	for _, p := range fn.Params {
		n := g.declare(g.valName(p), g.sortOf(p.Type()))
		g.assume(g.wellFormed(n, p.Type(), "alloc@0"))
	}
	for _, fv := range fn.FreeVars {
		n := g.declare(g.valName(fv), g.sortOf(fv.Type()))
		g.assume(g.wellFormed(n, fv.Type(), "alloc@0"))
	}
	g.specEnv = env
	// facts about package-level variables that are only written by package initialisation
	if !strings.HasPrefix(fn.Name(), "init") {
		for i, c := range g.DB.Globals {
			if pkgShort(fn.Pkg.Pkg.Path()) != g.DB.GlobalPkg[i] {
				continue
			}
			s, err := env.EvalBool(c.Expr)
			if err != nil {
				specFail("%s: global %s: %v", c.Pos, c.Src, err)
			}
			g.assume(s)
		}
	}
	for _, c := range g.spec.Requires {
		s, err := env.EvalBool(c.Expr)
		if err != nil {
			specFail("%s: requires %s: %v", c.Pos, c.Src, err)
		}
		g.assume(s)
	}
	g.unfoldChunkDefinitions()
	// function frame
	if g.spec.AssignsAll || (!g.spec.HasAssigns && len(g.spec.Ensures) == 0 && len(g.spec.Requires) == 0) {
		g.assignAll = g.spec.AssignsAll || !g.spec.HasAssigns
	}
	for _, a := range g.spec.Assigns {
		r, err := env.EvalRegion(a)
		if err != nil {
			specFail("assigns %s: %v", exprString(a), err)
		}
		g.fnAssigns = append(g.fnAssigns, r)
	}
	for _, se := range g.shapeErrors {
		g.obls = append(g.obls, &Obl{Name: g.key + ":contract-shape:" + se, Kind: "contract-shape", Label: se, Pos: g.posOf(fn.Pos()), Func: g.key, Prefix: 0, Goal: "false"})
	}
	// vacuity canary: the assumptions at entry must be satisfiable
	g.obls = append(g.obls, &Obl{Name: g.key + ":canary:entry", Kind: "canary", Func: g.key, Prefix: len(g.cmds), Goal: "false", Canary: true, Pos: g.posOf(fn.Pos())})

	for _, b := range g.order {
		g.block(b)
	}
}

// ---------- CFG analysis ----------

func (g *Gen) findLoops() {
	fn := g.fn
	// reachable blocks, back edges
	for _, b := range fn.Blocks {
		for _, s := range b.Succs {
			if s.Dominates(b) {
				g.backEdges[[2]int{b.Index, s.Index}] = true
				if g.loopOf[s] == nil {
					g.loopOf[s] = &Loop{Header: s, Blocks: map[*ssa.BasicBlock]bool{s: true}}
				}
			}
		}
	}
	for h, l := range g.loopOf {
		// natural loop: blocks that reach a back-edge source without passing through h
		var stack []*ssa.BasicBlock
		for _, p := range h.Preds {
			if g.backEdges[[2]int{p.Index, h.Index}] && !l.Blocks[p] {
				l.Blocks[p] = true
				stack = append(stack, p)
			}
		}
		for len(stack) > 0 {
			b := stack[len(stack)-1]
			stack = stack[:len(stack)-1]
			for _, p := range b.Preds {
				if !l.Blocks[p] {
					l.Blocks[p] = true
					stack = append(stack, p)
				}
			}
		}
		l.MinPos = token.Pos(1 << 40)
		for b := range l.Blocks {
			for _, in := range b.Instrs {
				if _, isDbg := in.(*ssa.DebugRef); isDbg {
					continue
				}
				if p := in.Pos(); p.IsValid() && p < l.MinPos {
					l.MinPos = p
				}
			}
		}
		g.loops = append(g.loops, l)
	}
	sort.Slice(g.loops, func(i, j int) bool {
		if g.loops[i].MinPos != g.loops[j].MinPos {
			return g.loops[i].MinPos < g.loops[j].MinPos
		}
		return g.loops[i].Header.Index < g.loops[j].Header.Index
	})
	for i, l := range g.loops {
		l.Ordinal = i + 1
		l.Spec = g.spec.Loops[l.Ordinal]
		if l.Spec == nil {
			l.Spec = &LoopSpec{}
		}
	}
	for n := range g.spec.Loops {
		if n < 1 || n > len(g.loops) {
			// the loop the contract talks about is gone (e.g. replaced by a builtin or a call): its invariants were
			// auxiliary to the function's postconditions, which are still checked; not an alarm by itself
			g.Warnings = append(g.Warnings, fmt.Sprintf("contract names loop %d but the function has %d loops: loop clauses ignored", n, len(g.loops)))
		}
	}
	// reverse postorder ignoring back edges
	seen := map[*ssa.BasicBlock]bool{}
	var post []*ssa.BasicBlock
	var dfs func(b *ssa.BasicBlock)
	dfs = func(b *ssa.BasicBlock) {
		seen[b] = true
		for _, s := range b.Succs {
			if g.backEdges[[2]int{b.Index, s.Index}] || seen[s] {
				continue
			}
			dfs(s)
		}
		post = append(post, b)
	}
	dfs(fn.Blocks[0])
	for i := len(post) - 1; i >= 0; i-- {
		g.order = append(g.order, post[i])
	}
}

func (g *Gen) collectNames() {
	for _, b := range g.fn.Blocks {
		for _, in := range b.Instrs {
			switch in := in.(type) {
			case *ssa.DebugRef:
				if in.IsAddr {
					if obj, ok := in.Object().(*types.Var); ok && obj != nil {
						if _, isAlloc := in.X.(*ssa.Alloc); isAlloc {
							g.nameAddrs[obj.Name()] = in.X
						}
					}
					continue
				}
				if obj, ok := in.Object().(*types.Var); ok && obj != nil {
					vs := g.nameVals[obj.Name()]
					dup := false
					for _, v := range vs {
						if v == in.X {
							dup = true
						}
					}
					if !dup {
						g.nameVals[obj.Name()] = append(vs, in.X)
					}
				}
			case *ssa.Phi:
				if in.Comment != "" {
					g.nameVals["#"+in.Comment] = append(g.nameVals["#"+in.Comment], in)
				}
			case *ssa.MakeClosure:
				g.closures[in] = in
			}
		}
	}
}

// baseEnv is the contract environment at function entry: parameters by name.
func (g *Gen) baseEnv() *SpecEnv {
	env := &SpecEnv{g: g, vars: map[string]SVal{}, st: g.entry, old: g.entry, pkg: g.fn.Pkg.Pkg, alloc0: "alloc@0"}
	for i, p := range g.fn.Params {
		v := SVal{S: g.valName(p), T: p.Type(), Sort: g.sortOf(p.Type())}
		env.vars[p.Name()] = v
		env.vars[fmt.Sprintf("arg%d", i)] = v
		if i == 0 && g.fn.Signature.Recv() != nil {
			env.vars["self"] = v
		}
	}
	for _, fv := range g.fn.FreeVars {
		env.vars[fv.Name()] = SVal{S: g.valName(fv), T: fv.Type(), Sort: g.sortOf(fv.Type())}
	}
	return env
}

// ---------- state merging ----------

func (g *Gen) mergeStates(conds []string, sts []*State) *State {
	if len(sts) == 1 {
		return sts[0].clone()
	}
	out := &State{H: map[string]string{}}
	same := true
	for _, s := range sts[1:] {
		if s.Alloc != sts[0].Alloc {
			same = false
		}
	}
	if same {
		out.Alloc = sts[0].Alloc
	} else {
		n := g.freshConst("alloc", "Int")
		g.assume(sEq(n, g.iteChain(conds, func(i int) string { return sts[i].Alloc })))
		out.Alloc = n
	}
	for _, h := range g.allHeapNames() {
		term := func(i int) string {
			if t, ok := sts[i].H[h]; ok {
				return t
			}
			return h + "@0"
		}
		same := true
		for i := range sts[1:] {
			if term(i+1) != term(0) {
				same = false
			}
		}
		if same {
			if t, ok := sts[0].H[h]; ok {
				out.H[h] = t
			}
			continue
		}
		n := g.freshConst(h, g.heaps[h])
		g.assume(sEq(n, g.iteChain(conds, term)))
		out.H[h] = n
		g.readOnlyFacts(h, n)
	}
	return out
}

func (g *Gen) iteChain(conds []string, val func(i int) string) string {
	t := val(len(conds) - 1)
	for i := len(conds) - 2; i >= 0; i-- {
		t = sIte(conds[i], val(i), t)
	}
	return t
}

// ---------- blocks ----------

func (g *Gen) block(b *ssa.BasicBlock) {
	g.curBlock = b
	if b.Index == 0 && len(g.inlStack) > 0 {
		f := g.inlStack[len(g.inlStack)-1]
		g.curPC = f.entryPC
		g.cur = f.entrySt.clone()
	} else if b.Index == 0 {
		g.curPC = "true"
		g.cur = g.entry.clone()
	} else {
		var conds []string
		var sts []*State
		var preds []*ssa.BasicBlock
		for _, p := range b.Preds {
			if g.backEdges[[2]int{p.Index, b.Index}] {
				continue
			}
			c, ok := g.edge[[2]int{p.Index, b.Index}]
			if !ok {
				continue // unreachable predecessor
			}
			conds = append(conds, c)
			sts = append(sts, g.outSt[p])
			preds = append(preds, p)
		}
		if len(conds) == 0 {
			g.unsupported("block %d has no processed predecessor", b.Index)
		}
		pcName := g.declare(fmt.Sprintf("%spc!%d", g.valPrefix, b.Index), "Bool")
		g.assume(sEq(pcName, sOr(conds...)))
		g.curPC = pcName
		g.cur = g.mergeStates(conds, sts)
		if l := g.loopOf[b]; l != nil {
			g.loopHead(l, preds, conds)
		} else {
			for _, in := range b.Instrs {
				phi, ok := in.(*ssa.Phi)
				if !ok {
					break
				}
				g.defineVal(phi, g.iteChain(conds, func(i int) string {
					return g.val(phi.Edges[predIndex(b, preds[i])])
				}))
			}
		}
	}
	g.pc[b] = g.curPC
	for _, in := range b.Instrs {
		if _, ok := in.(*ssa.Phi); ok {
			continue
		}
		g.instr(in)
	}
	g.outSt[b] = g.cur
	if l := g.loopOf[b]; l != nil {
		g.loopGuards(l)
	}
	// back edges leaving this block
	for _, s := range b.Succs {
		if g.backEdges[[2]int{b.Index, s.Index}] {
			g.backEdge(g.loopOf[s], b)
		}
	}
}

func predIndex(b, p *ssa.BasicBlock) int {
	for i, q := range b.Preds {
		if q == p {
			return i
		}
	}
	panic("predIndex")
}

// ---------- loops ----------

// loopEnv builds the contract environment for loop l with header phis replaced by subst.
func (g *Gen) loopEnv(l *Loop, st *State, subst map[ssa.Value]string) *SpecEnv {
	env := g.baseEnv()
	env.st = st
	env.old = g.entry
	findIter := func(h *ssa.BasicBlock) bool {
		for _, in := range h.Instrs {
			if nx, ok := in.(*ssa.Next); ok && !nx.IsString {
				if rg, ok := nx.Iter.(*ssa.Range); ok {
					if mt, ok := rg.X.Type().Underlying().(*types.Map); ok {
						env.iter = g.val(rg)
						env.iterKeySort = g.L.CellSort(mt.Key())
						return true
					}
				}
			}
		}
		return false
	}
	if !findIter(l.Header) {
		// a loop nested in a loop ranging over a map: visited() / nvisited() / vissum() speak about the innermost such loop
		var best *Loop
		for _, l2 := range g.loops {
			if l2 != l && l2.Blocks[l.Header] && (best == nil || len(l2.Blocks) < len(best.Blocks)) {
				save := env.iter
				if findIter(l2.Header) {
					best = l2
				} else {
					env.iter = save
				}
			}
		}
	}
	for n, a := range g.nameAddrs {
		if ai, ok := a.(ssa.Instruction); ok && (ai.Block().Dominates(l.Header) && !l.Blocks[ai.Block()]) {
			et, _ := deref(a.Type())
			env.vars[n] = SVal{T: et, Addr: g.val(a), Sort: g.sortOf(et)}
			if isComposite(et) {
				env.vars[n] = SVal{T: et, Addr: g.val(a), S: g.val(a), Sort: "Ptr"}
			}
		}
	}
	names := map[string]bool{}
	for n := range g.nameVals {
		names[n] = true
	}
	for n, vs := range g.nameVals {
		name := strings.TrimPrefix(n, "#")
		if strings.HasPrefix(n, "#") && names[name] {
			continue // a source variable of the same name takes precedence
		}
		var pick ssa.Value
		// 1. a phi of this header carrying the variable
		for _, v := range vs {
			if phi, ok := v.(*ssa.Phi); ok && phi.Block() == l.Header {
				pick = v
			}
		}
		// 2. a value defined in the header block (function of the phis), or dominating the header
		if pick == nil {
			for _, v := range vs {
				in, ok := v.(ssa.Instruction)
				if !ok {
					if _, isParam := v.(*ssa.Parameter); isParam {
						pick = v
					}
					continue
				}
				if in.Block() == l.Header && g.pureOfPhis(v, l) {
					pick = v
				} else if in.Block() != l.Header && in.Block().Dominates(l.Header) && !l.Blocks[in.Block()] {
					if pick == nil {
						pick = v
					} else if pi, ok := pick.(ssa.Instruction); ok && pi.Block() != l.Header && pi.Block().Dominates(in.Block()) {
						pick = v
					}
				}
			}
		}
		if pick == nil {
			continue
		}
		if _, isParam := pick.(*ssa.Parameter); isParam {
			continue
		}
		env.vars[name] = SVal{S: g.evalIn(pick, subst, l), T: pick.Type(), Sort: g.sortOf(pick.Type())}
	}
	return env
}

// pureOfPhis: v is computed in the loop header from header phis / outer values by pure operations only.
func (g *Gen) pureOfPhis(v ssa.Value, l *Loop) bool {
	in, ok := v.(ssa.Instruction)
	if !ok || in.Block() != l.Header {
		return true
	}
	switch x := v.(type) {
	case *ssa.Phi:
		return true
	case *ssa.BinOp:
		return g.pureOfPhis(x.X, l) && g.pureOfPhis(x.Y, l)
	case *ssa.UnOp:
		return x.Op != token.MUL && x.Op != token.ARROW && g.pureOfPhis(x.X, l)
	case *ssa.Convert:
		return isInteger(x.Type()) && isInteger(x.X.Type()) && g.pureOfPhis(x.X, l)
	case *ssa.ChangeType:
		return g.pureOfPhis(x.X, l)
	}
	return false
}

// evalIn re-evaluates v with the header phis of l replaced by subst.
func (g *Gen) evalIn(v ssa.Value, subst map[ssa.Value]string, l *Loop) string {
	if s, ok := subst[v]; ok {
		return s
	}
	in, ok := v.(ssa.Instruction)
	if !ok || in.Block() != l.Header || len(subst) == 0 {
		return g.val(v)
	}
	switch x := v.(type) {
	case *ssa.BinOp:
		a, b := g.evalIn(x.X, subst, l), g.evalIn(x.Y, subst, l)
		return g.binOpTerm(x, a, b)
	case *ssa.UnOp:
		return g.unOpTerm(x, g.evalIn(x.X, subst, l))
	case *ssa.Convert:
		return g.convertInt(g.evalIn(x.X, subst, l), x.X.Type(), x.Type())
	case *ssa.ChangeType:
		return g.evalIn(x.X, subst, l)
	}
	return g.val(v)
}

func (g *Gen) headerPhis(l *Loop) []*ssa.Phi {
	var ps []*ssa.Phi
	for _, in := range l.Header.Instrs {
		if phi, ok := in.(*ssa.Phi); ok {
			ps = append(ps, phi)
		} else {
			break
		}
	}
	return ps
}

func (g *Gen) loopHead(l *Loop, preds []*ssa.BasicBlock, conds []string) {
	b := l.Header
	pos := g.posOf(l.MinPos)
	entrySt := g.cur
	l.EntrySt = entrySt.clone()
	// 1. invariants hold on entry
	subst := map[ssa.Value]string{}
	for _, phi := range g.headerPhis(l) {
		phi := phi
		subst[phi] = g.iteChain(conds, func(i int) string { return g.val(phi.Edges[predIndex(b, preds[i])]) })
	}
	envE := g.loopEnv(l, entrySt, subst)
	for _, c := range l.Spec.Invs {
		s, err := envE.EvalBool(c.Expr)
		if err != nil {
			specFail("%s: loop %d invariant %s: %v", c.Pos, l.Ordinal, c.Src, err)
		}
		g.obligeAt("inv-entry", fmt.Sprintf("loop%d.%s", l.Ordinal, labelOr(c.Label, c.Src)), pos, g.curPC, s)
	}
	// automatic invariants of range loops (proved like the others)
	for i, t := range g.autoInvs(l, subst) {
		g.obligeAt("inv-entry", fmt.Sprintf("loop%d.auto-range-%d", l.Ordinal, i), pos, g.curPC, t)
	}
	// 2. havoc what the loop modifies
	head := entrySt.clone()
	g.cur = head
	g.havocLoop(l, head, entrySt)
	for _, phi := range g.headerPhis(l) {
		n := g.declareVal(phi)
		g.assume(sImp(g.curPC, g.wellFormed(n, phi.Type(), head.Alloc)))
	}
	l.HeadSt = head.clone()
	for _, t := range g.autoInvs(l, nil) {
		g.assumePC(t)
	}
	// 3. assume invariants
	envH := g.loopEnv(l, head, nil)
	for _, c := range l.Spec.Invs {
		s, err := envH.EvalBool(c.Expr)
		if err != nil {
			specFail("%s: loop %d invariant %s: %v", c.Pos, l.Ordinal, c.Src, err)
		}
		g.assumePC(s)
	}
	if l.Spec.Decreases != nil {
		v, err := envH.EvalVal(l.Spec.Decreases)
		if err != nil {
			specFail("loop %d decreases: %v", l.Ordinal, err)
		}
		l.DecVal = v.S
	}
	// vacuity: the loop head must be reachable under the invariant
	g.obls = append(g.obls, &Obl{Name: fmt.Sprintf("%s:canary:loop%d", g.key, l.Ordinal), Kind: "canary", Func: g.key, Prefix: len(g.cmds), Goal: sNot(g.curPC), Canary: true, Pos: pos})
}

func labelOr(label, src string) string {
	if label != "" {
		return label
	}
	if len(src) > 40 {
		src = src[:40]
	}
	return src
}

func (g *Gen) backEdge(l *Loop, from *ssa.BasicBlock) {
	b := l.Header
	cond := g.edge[[2]int{from.Index, b.Index}]
	st := g.outSt[from]
	subst := map[ssa.Value]string{}
	for _, phi := range g.headerPhis(l) {
		subst[phi] = g.val(phi.Edges[predIndex(b, from)])
	}
	env := g.loopEnv(l, st, subst)
	pos := g.posOf(l.MinPos)
	for i, t := range g.autoInvs(l, subst) {
		g.obligeAt("inv-preserved", fmt.Sprintf("loop%d.auto-range-%d", l.Ordinal, i), pos, cond, t)
	}
	for _, c := range l.Spec.Invs {
		if c.AssumedPreserved {
			g.Warnings = append(g.Warnings, fmt.Sprintf("loop %d invariant [%s] is ASSUMED to be preserved by the loop body (checked on entry only)", l.Ordinal, labelOr(c.Label, c.Src)))
			continue
		}
		s, err := env.EvalBool(c.Expr)
		if err != nil {
			specFail("%s: loop %d invariant %s: %v", c.Pos, l.Ordinal, c.Src, err)
		}
		g.obligeAt("inv-preserved", fmt.Sprintf("loop%d.%s", l.Ordinal, labelOr(c.Label, c.Src)), pos, cond, s)
	}
	if l.Spec.Decreases != nil {
		v, err := env.EvalVal(l.Spec.Decreases)
		if err != nil {
			specFail("loop %d decreases: %v", l.Ordinal, err)
		}
		if g.M.BV {
			g.obligeAt("decreases", fmt.Sprintf("loop%d", l.Ordinal), pos, cond, app("bvult", v.S, l.DecVal))
		} else {
			g.obligeAt("decreases", fmt.Sprintf("loop%d", l.Ordinal), pos, cond, sAnd(app("<", v.S, l.DecVal), app("<=", "0", l.DecVal)))
		}
	}
}

// prepass registers every heap the function or its contracts can touch, so that
// "havoc everything" really covers everything.
func (g *Gen) prepass() {
	seen := map[types.Type]bool{}
	var reg func(t types.Type, depth int)
	reg = func(t types.Type, depth int) {
		if t == nil || seen[t] || depth > 6 {
			return
		}
		seen[t] = true
		if isOpaque(t) {
			g.heapFor("Int")
			return
		}
		switch u := t.Underlying().(type) {
		case *types.Basic:
			if u.Kind() == types.UntypedNil || u.Kind() == types.Invalid {
				return
			}
			if u.Info()&types.IsFloat != 0 || u.Info()&types.IsComplex != 0 {
				return
			}
			g.heapFor(g.L.CellSort(t))
		case *types.Pointer:
			g.heapFor("Ptr")
			reg(u.Elem(), depth+1)
		case *types.Slice:
			g.heapFor("Slice")
			reg(u.Elem(), depth+1)
		case *types.Array:
			reg(u.Elem(), depth+1)
		case *types.Struct:
			if OpaqueStructs[u] {
				g.heapFor("Int")
				return
			}
			for i := 0; i < u.NumFields(); i++ {
				reg(u.Field(i).Type(), depth+1)
			}
			for _, gf := range g.L.ghostOf(t) {
				reg(gf.T, depth+1)
			}
		case *types.Interface:
			g.heapFor("Iface")
			if len(g.L.ghostOf(t)) > 0 {
				g.heapFor("GInt")
			}
		case *types.Map:
			g.heapFor("Ptr")
			ks, vs := g.L.CellSort(u.Key()), g.L.CellSort(u.Elem())
			g.mapDom(g.entry, ks)
			g.mapVal(g.entry, ks, vs)
			g.mapCard(g.entry)
			g.mapVis(g.entry, ks)
			if vs == "Slice" && !g.M.BV {
				g.rawHeap(g.entry, "M_vlen", "(Array Int Int)")
				g.rawHeap(g.entry, "M_vissum", "(Array Int Int)")
			}
			if et, ok := deref(u.Elem()); ok && g.isHeapType(et) {
				g.heapFor("GOwn")
			}
			reg(u.Key(), depth+1)
			reg(u.Elem(), depth+1)
		case *types.Signature:
			g.heapFor("Func")
		case *types.Tuple:
			for i := 0; i < u.Len(); i++ {
				reg(u.At(i).Type(), depth+1)
			}
		}
	}
	for _, srt := range []string{"Int", "Bool", "Ptr", "Slice", "Iface", "GInt"} {
		g.heapFor(srt)
	}
	for _, gd := range g.DB.Ghosts {
		if gd.TypeSrc == "ghostlock" {
			g.heapFor("GLock")
		}
	}
	for _, p := range g.fn.Params {
		reg(p.Type(), 0)
	}
	for _, p := range g.fn.FreeVars {
		reg(p.Type(), 0)
	}
	scanned := map[*ssa.Function]bool{}
	var scan func(fn *ssa.Function, depth int)
	scan = func(fn *ssa.Function, depth int) {
		if scanned[fn] {
			return
		}
		scanned[fn] = true
		for _, b := range fn.Blocks {
			for _, in := range b.Instrs {
				if v, ok := in.(ssa.Value); ok {
					reg(v.Type(), 2)
				}
				var ops []*ssa.Value
				for _, op := range in.Operands(ops) {
					if *op != nil {
						reg((*op).Type(), 2)
					}
				}
				// callees without a contract are translated in place (inline.go): their heaps must be known too
				if ci, ok := in.(ssa.CallInstruction); ok && depth < inlineMaxDepth {
					if cf := ci.Common().StaticCallee(); cf != nil && !ci.Common().IsInvoke() {
						if _, has := g.DB.Funcs[FuncKey(cf)]; !has && g.inlinable(cf) {
							scan(cf, depth+1)
						}
					}
				}
			}
		}
	}
	scan(g.fn, 0)
	g.frozen = true
}


// loopGuards checks the "guard" clauses on edges from the header into the loop body
// and the "exit" clauses on edges from the header out of the loop.
func (g *Gen) loopGuards(l *Loop) {
	if len(l.Spec.Guards) == 0 && len(l.Spec.Exits) == 0 {
		return
	}
	b := l.Header
	env := g.loopEnv(l, g.cur, nil)
	pos := g.posOf(l.MinPos)
	for _, s := range b.Succs {
		cond, ok := g.edge[[2]int{b.Index, s.Index}]
		if !ok {
			continue
		}
		cl := l.Spec.Exits
		kind := "loop-exit"
		if l.Blocks[s] {
			cl = l.Spec.Guards
			kind = "loop-guard"
		}
		for _, c := range cl {
			t, err := env.EvalBool(c.Expr)
			if err != nil {
				specFail("%s: loop %d %s: %v", c.Pos, l.Ordinal, kind, err)
			}
			g.obligeAt(kind, fmt.Sprintf("loop%d.%s", l.Ordinal, labelOr(c.Label, c.Src)), pos, cond, t)
		}
	}
}


func pkgShort(path string) string {
	s := ShortName(path + ".")
	return strings.TrimSuffix(s, ".")
}

// CheckGlobalsImmutable verifies that the variables mentioned in `global` clauses are written only by
// package initialisers (so assuming the clauses at every function entry is sound).
func CheckGlobalsImmutable(P *Program, db *SpecDB) []string {
	names := map[string]bool{}
	for _, c := range db.Globals {
		ast.Inspect(c.Expr, func(n ast.Node) bool {
			if id, ok := n.(*ast.Ident); ok {
				names[id.Name] = true
			}
			return true
		})
	}
	var bad []string
	for _, sp := range P.SPkgs {
		for _, m := range sp.Members {
			f, ok := m.(*ssa.Function)
			_ = f
			_ = ok
		}
	}
	for k, f := range P.Funcs {
		if strings.HasPrefix(f.Name(), "init") {
			continue
		}
		for _, b := range f.Blocks {
			for _, in := range b.Instrs {
				st, ok := in.(*ssa.Store)
				if !ok {
					continue
				}
				root := st.Addr
				for {
					switch x := root.(type) {
					case *ssa.FieldAddr:
						root = x.X
						continue
					case *ssa.IndexAddr:
						root = x.X
						continue
					}
					break
				}
				if gl, ok := root.(*ssa.Global); ok && names[gl.Name()] {
					bad = append(bad, fmt.Sprintf("%s writes global %s", k, gl.Name()))
				}
			}
		}
	}
	return bad
}


// autoInvs returns the automatic invariants of `range` loops over ints and slices (lower and upper bound
// of the hidden iteration variable), with the header phis replaced by subst (nil: the phis themselves).
func (g *Gen) autoInvs(l *Loop, subst map[ssa.Value]string) []string {
	var out []string
	term := func(v ssa.Value) string {
		if subst != nil {
			if s, ok := subst[v]; ok {
				return s
			}
		}
		return g.val(v)
	}
	for _, phi := range g.headerPhis(l) {
		lo := int64(0)
		switch phi.Comment {
		case "rangeindex":
			lo = -1
		case "rangeint.iter":
			lo = 0
		default:
			continue
		}
		out = append(out, g.cmp(">=", term(phi), g.M.IntLit(big.NewInt(lo), phi.Type()), phi.Type()))
		// upper bound: the loop compares phi+1 with a bound defined outside the loop
		for b := range l.Blocks {
			for _, in := range b.Instrs {
				cmp, ok := in.(*ssa.BinOp)
				if !ok || cmp.Op != token.LSS {
					continue
				}
				add, ok := cmp.X.(*ssa.BinOp)
				if !ok || add.Op != token.ADD || add.X != ssa.Value(phi) {
					continue
				}
				if c, ok := add.Y.(*ssa.Const); !ok || c.Int64() != 1 {
					continue
				}
				if !definedOutside(cmp.Y, l) {
					continue
				}
				out = append(out, g.cmp("<", term(phi), g.val(cmp.Y), phi.Type()))
			}
		}
	}
	return out
}

// InvariantWriterObligations: for every `invariant-writers T props ...` directive naming prop, each function of the
// repository that allocates a T, stores a T, or stores into a field of a T must be under a (non-trusted) contract
// tagged with prop. A writer outside the contracts is a failing obligation: the representation invariant of T is
// only as good as the list of functions that establish it, so that list is computed from the code on every run.
func InvariantWriterObligations(P *Program, db *SpecDB, prop string) *FuncResult {
	r := &FuncResult{Key: "invariant-writers", Pos: "contracts", NoLemmas: true}
	for _, iw := range db.InvWriters {
		use := false
		for _, p := range iw.Props {
			if p == prop {
				use = true
			}
		}
		if !use {
			continue
		}
		isT := func(t types.Type) bool {
			n, ok := t.(*types.Named)
			if !ok || n.Obj().Pkg() == nil {
				return false
			}
			return ShortName(n.Obj().Pkg().Path())+"."+n.Obj().Name() == iw.Type
		}
		ptrT := func(t types.Type) bool {
			p, ok := t.Underlying().(*types.Pointer)
			return ok && isT(p.Elem())
		}
		for _, k := range P.SortedFuncKeys() {
			fn := P.Funcs[k]
			why := ""
			for _, b := range fn.Blocks {
				for _, in := range b.Instrs {
					switch in := in.(type) {
					case *ssa.Alloc:
						if ptrT(in.Type()) {
							why = "allocates a " + iw.Type
						}
					case *ssa.Store:
						if isT(in.Val.Type()) {
							why = "stores a " + iw.Type
						}
						if fa, ok := in.Addr.(*ssa.FieldAddr); ok && ptrT(fa.X.Type()) {
							why = "writes a field of a " + iw.Type
						}
					}
				}
			}
			if why == "" {
				continue
			}
			goal := "false"
			if s := db.Funcs[k]; s != nil && !s.Trusted && hasProp(s, prop) {
				goal = "true"
			}
			r.Obls = append(r.Obls, &Obl{Name: "invariant-writers:" + iw.Type + ":" + k, Kind: "invariant-coverage", Func: r.Key,
				Goal: goal, Pos: P.SSA.Fset.Position(fn.Pos()).String() + " (" + why + ")"})
		}
	}
	if len(r.Obls) == 0 {
		return nil
	}
	return r
}
