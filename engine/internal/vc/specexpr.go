package vc

import (
	"fmt"
	"go/ast"
	"go/constant"
	"go/token"
	"go/types"
	"math/big"
	"strconv"
	"strings"
)

// SVal is the value of a contract expression.
type SVal struct {
	S       string
	T       types.Type
	Sort    string
	Addr    string // location of the value if it is an lvalue
	Untyped bool
	IsNil   bool
}

type SpecEnv struct {
	g     *Gen
	vars  map[string]SVal
	st    *State
	old   *State
	pkg   *types.Package
	alloc0 string // allocation watermark "before" (for fresh())
	cOwn        bool     // evaluating the own contract of a C function (parameters have their declared types)
	bound       []string // names of the bound variables in scope
	lastCands   []ast.Expr // (scratch) the sequences indexed by the bound variable in the clause just analysed
	pats        *[]string // trigger candidates of the innermost enclosing quantifier (selects on its bare bound variable)
	iter        string // map iterator of the enclosing loop (for visited())
	iterKeySort string
}

func (e *SpecEnv) with(st *State) *SpecEnv {
	n := *e
	n.st = st
	return &n
}

func (e *SpecEnv) bind(name string, v SVal) *SpecEnv {
	n := *e
	n.vars = map[string]SVal{}
	for k, x := range e.vars {
		n.vars[k] = x
	}
	n.vars[name] = v
	return &n
}

type specError struct{ msg string }

func (e specError) Error() string { return e.msg }

func specFail(format string, a ...any) { panic(specError{fmt.Sprintf(format, a...)}) }

// EvalBool evaluates a contract clause to an SMT Bool term.
func (e *SpecEnv) EvalBool(x ast.Expr) (s string, err error) {
	defer func() {
		if r := recover(); r != nil {
			if se, ok := r.(specError); ok {
				err = se
				return
			}
			panic(r)
		}
	}()
	v := e.eval(x)
	if v.Sort != "Bool" {
		specFail("clause is not boolean (sort %s)", v.Sort)
	}
	return v.S, nil
}

func (e *SpecEnv) EvalVal(x ast.Expr) (v SVal, err error) {
	defer func() {
		if r := recover(); r != nil {
			if se, ok := r.(specError); ok {
				err = se
				return
			}
			panic(r)
		}
	}()
	return e.eval(x), nil
}

func (e *SpecEnv) scalar(t types.Type, term string) SVal {
	return SVal{S: term, T: t, Sort: e.g.sortOf(t)}
}

// load reads the value of type t at address addr in the current state.
func (e *SpecEnv) load(addr string, t types.Type) SVal {
	g := e.g
	if isComposite(t) {
		return SVal{T: t, Sort: "Ptr", Addr: addr, S: addr}
	}
	s := g.L.CellSort(t)
	term := g.loadCell(e.st, addr, s)
	if isLocalType(t) {
		// a local scalar of a C function: its value has the variable's declared type
		return SVal{S: term, T: unwrapLocal(t), Sort: g.L.ValSort(t), Addr: addr}
	}
	// typed memory: an integer cell read through a typed path holds a value of its type.
	// (only for ground addresses: assumptions cannot mention bound variables)
	// (not in C functions: pointer casts there re-type cells, e.g. an opaque field element seen through a limb_t*)
	if s == "Int" && !g.M.BV && !isOpaque(t) && (!g.isC || (e.cOwn && isByteType(t))) {
		ground := true
		for _, b := range e.bound {
			if strings.Contains(addr, b) {
				ground = false
			}
		}
		if ground {
			if r := g.typeRange(term, t); r != "true" && !g.rangeAssumed[term] {
				g.rangeAssumed[term] = true
				g.assume(r)
			}
		}
	}
	// typed memory, references: a cell read through a path of static type t holds a reference that respects the
	// heap-only types (Go's type safety; the untyped cell model does not know it by itself)
	if (s == "Ptr" || s == "Slice" || s == "Iface") && !g.isC && len(g.DB.HeapTypes) > 0 {
		ground := true
		for _, b := range e.bound {
			if strings.Contains(addr, b) {
				ground = false
			}
		}
		if ground && !g.rangeAssumed["ty:"+term] {
			g.rangeAssumed["ty:"+term] = true
			if f := g.typedFacts(term, t); f != "true" {
				g.assume(f)
			}
		}
	}
	return SVal{S: term, T: t, Sort: s, Addr: addr}
}

func deref(t types.Type) (types.Type, bool) {
	if p, ok := t.Underlying().(*types.Pointer); ok {
		return p.Elem(), true
	}
	return nil, false
}

func (e *SpecEnv) intLit(n int64, t types.Type) string {
	return e.g.M.IntLit(big.NewInt(n), t)
}

var typInt = types.Typ[types.Int]

// ghostInt is the type of ghost counters (mathematical integers kept in their own heap H_GInt).
var ghostInt = types.NewNamed(types.NewTypeName(0, nil, "ghostint", nil), types.Typ[types.Int], nil)

// ghostLock is the type of the ghost state of locks (what the current caller holds), in a heap of its own (H_GLock).
var ghostLock = types.NewNamed(types.NewTypeName(0, nil, "ghostlock", nil), types.Typ[types.Int], nil)

func (e *SpecEnv) eval(x ast.Expr) SVal {
	g := e.g
	switch x := x.(type) {
	case *ast.ParenExpr:
		return e.eval(x.X)
	case *ast.BasicLit:
		switch x.Kind {
		case token.INT:
			n, ok := new(big.Int).SetString(x.Value, 0)
			if !ok {
				specFail("bad int %s", x.Value)
			}
			return SVal{S: g.M.IntLit(n, nil), T: typInt, Sort: g.M.IX(), Untyped: true}
		case token.STRING:
			s, _ := strconv.Unquote(x.Value)
			return SVal{S: g.strlit(s), T: types.Typ[types.String], Sort: "Str"}
		case token.CHAR:
			s, _ := strconv.Unquote(x.Value)
			return SVal{S: g.M.IntLit(big.NewInt(int64(s[0])), nil), T: typInt, Sort: g.M.IX(), Untyped: true}
		}
	case *ast.Ident:
		switch x.Name {
		case "true", "false":
			return SVal{S: x.Name, T: types.Typ[types.Bool], Sort: "Bool"}
		case "nil":
			return SVal{IsNil: true}
		}
		if v, ok := e.vars[x.Name]; ok {
			if v.Addr != "" && v.S == "" {
				return e.load(v.Addr, v.T)
			}
			return v
		}
		if e.pkg != nil {
			if obj := e.pkg.Scope().Lookup(x.Name); obj != nil {
				switch obj := obj.(type) {
				case *types.Const:
					return e.constVal(obj.Val(), obj.Type())
				case *types.Var:
					// package-level variable: its storage is a global object
					for _, sp := range g.P.SPkgs {
						if sp.Pkg == e.pkg {
							if gl, ok := sp.Members[x.Name].(interface{ Type() types.Type }); ok {
								_ = gl
							}
						}
					}
					if gv := g.findGlobal(e.pkg, x.Name); gv != nil {
						return e.load(g.globalPtr(gv), obj.Type())
					}
				}
			}
		}
		specFail("unknown identifier %q", x.Name)
	case *ast.SelectorExpr:
		// qualified identifier pkg.Name ?
		if id, ok := x.X.(*ast.Ident); ok {
			if _, isVar := e.vars[id.Name]; !isVar && e.pkg != nil {
				for _, imp := range e.pkg.Imports() {
					if imp.Name() == id.Name {
						sub := *e
						sub.pkg = imp
						return sub.eval(x.Sel)
					}
				}
			}
		}
		base := e.eval(x.X)
		return e.selectField(base, x.Sel.Name)
	case *ast.StarExpr:
		p := e.eval(x.X)
		et, ok := deref(p.T)
		if !ok {
			specFail("* of non-pointer")
		}
		return e.load(p.S, et)
	case *ast.UnaryExpr:
		switch x.Op {
		case token.NOT:
			v := e.eval(x.X)
			return SVal{S: sNot(v.S), T: v.T, Sort: "Bool"}
		case token.SUB:
			v := e.eval(x.X)
			if g.M.BV {
				return SVal{S: app("bvneg", v.S), T: v.T, Sort: v.Sort, Untyped: v.Untyped}
			}
			return SVal{S: app("-", v.S), T: v.T, Sort: v.Sort, Untyped: v.Untyped}
		case token.AND:
			v := e.eval(x.X)
			if v.Addr == "" {
				specFail("& of non-lvalue")
			}
			return SVal{S: v.Addr, T: types.NewPointer(v.T), Sort: "Ptr"}
		case token.XOR:
			v := e.eval(x.X)
			if g.M.BV {
				return SVal{S: app("bvnot", v.S), T: v.T, Sort: v.Sort}
			}
		}
	case *ast.BinaryExpr:
		return e.evalBinary(x)
	case *ast.IndexExpr:
		base := e.eval(x.X)
		idx := e.eval(x.Index)
		return e.index(base, idx)
	case *ast.SliceExpr:
		base := e.eval(x.X)
		return e.sliceOf(base, x)
	case *ast.CallExpr:
		return e.evalCall(x)
	}
	specFail("unsupported expression %T", x)
	return SVal{}
}

func (g *Gen) findGlobal(pkg *types.Package, name string) *ssaGlobal {
	for _, sp := range g.P.SSA.AllPackages() {
		if sp.Pkg == pkg {
			if gl, ok := sp.Members[name].(*ssaGlobal); ok {
				return gl
			}
		}
	}
	return nil
}

func (e *SpecEnv) constVal(v constant.Value, t types.Type) SVal {
	g := e.g
	switch v.Kind() {
	case constant.Bool:
		return SVal{S: boolLit(constant.BoolVal(v)), T: t, Sort: "Bool"}
	case constant.Int:
		n, _ := new(big.Int).SetString(v.ExactString(), 10)
		b, _ := t.Underlying().(*types.Basic)
		if b != nil && b.Info()&types.IsUntyped != 0 {
			return SVal{S: g.M.IntLit(n, nil), T: typInt, Sort: g.M.IX(), Untyped: true}
		}
		return SVal{S: g.M.IntLit(n, t), T: t, Sort: g.sortOf(t)}
	case constant.String:
		return SVal{S: g.strlit(constant.StringVal(v)), T: types.Typ[types.String], Sort: "Str"}
	}
	specFail("unsupported constant kind")
	return SVal{}
}

func (e *SpecEnv) selectField(base SVal, name string) SVal {
	g := e.g
	t := base.T
	if t == nil {
		specFail("field %s of untyped value", name)
	}
	addr := base.Addr
	if _, isIface := t.Underlying().(*types.Interface); isIface {
		// ghost state attached to the dynamic object behind an interface value
		off := int64(0)
		for _, gf := range g.L.ghostOf(t) {
			if gf.Name == name {
				a := g.mkptr(pObj(app("if.val", base.S)), g.M.IxLit(off))
				if at, ok := gf.T.Underlying().(*types.Array); ok {
					return SVal{T: types.NewArray(ghostInt, at.Len()), Sort: "Ptr", Addr: a, S: a}
				}
				return SVal{S: g.loadCell(e.st, a, "GInt"), T: ghostInt, Sort: "GInt", Addr: a}
			}
			off += g.L.Size(gf.T)
		}
		specFail("no ghost field %s on %v", name, t)
	}
	if et, ok := deref(t); ok {
		addr = base.S
		t = et
	} else if !isComposite(t) {
		specFail("field %s of non-struct %v", name, t)
	}
	if addr == "" {
		specFail("field %s: no address", name)
	}
	// ghost fields
	if off, gt, ok := g.L.GhostOff(t, name); ok {
		return e.load(g.ptrAdd(addr, g.M.IxLit(off)), gt)
	}
	obj, path, _ := types.LookupFieldOrMethod(t, true, e.pkgOf(t), name)
	fv, ok := obj.(*types.Var)
	if !ok {
		specFail("no field %s in %v", name, t)
	}
	cur := t
	for k, idx := range path {
		st := cur.Underlying().(*types.Struct)
		addr = g.ptrAdd(addr, g.M.IxLit(g.L.FieldOff(cur, idx)))
		ft := st.Field(idx).Type()
		if k < len(path)-1 {
			// embedded field: may be a pointer
			if et, ok := deref(ft); ok {
				addr = g.loadCell(e.st, addr, "Ptr")
				ft = et
			}
		}
		cur = ft
	}
	return e.load(addr, fv.Type())
}

func (e *SpecEnv) pkgOf(t types.Type) *types.Package {
	if n, ok := types.Unalias(t).(*types.Named); ok && n.Obj().Pkg() != nil {
		return n.Obj().Pkg()
	}
	return e.pkg
}

func (e *SpecEnv) toIX(v SVal) string {
	g := e.g
	if !g.M.BV || v.Untyped {
		return v.S
	}
	if v.T != nil && isInteger(v.T) {
		return g.convertInt(v.S, v.T, typInt)
	}
	return v.S
}

func (e *SpecEnv) index(base, idx SVal) SVal {
	g := e.g
	t := base.T
	if t == nil {
		specFail("index of untyped value")
	}
	i := e.toIX(idx)
	if et, ok := deref(t); ok {
		if at, ok := et.Underlying().(*types.Array); ok && !isOpaque(et) {
			return e.load(g.ptrAdd(base.S, g.M.ixMulC(i, g.L.Size(at.Elem()))), at.Elem())
		}
		// C-style pointer indexing p[i]
		return e.load(g.ptrAdd(base.S, g.M.ixMulC(i, g.L.Size(et))), et)
	}
	switch u := t.Underlying().(type) {
	case *types.Slice:
		p := app("sl.ptr", base.S)
		return e.load(g.ptrAdd(p, g.M.ixMulC(i, g.L.Size(u.Elem()))), u.Elem())
	case *types.Array:
		return e.load(g.ptrAdd(base.Addr, g.M.ixMulC(i, g.L.Size(u.Elem()))), u.Elem())
	case *types.Map:
		vs := g.L.CellSort(u.Elem())
		ks := g.L.CellSort(u.Key())
		return SVal{S: app("select", app("select", g.mapVal(e.st, ks, vs), pObj(base.S)), idx.S), T: u.Elem(), Sort: vs}
	case *types.Basic:
		if u.Info()&types.IsString != 0 {
			return SVal{S: app("sat", base.S, i), T: types.Typ[types.Uint8], Sort: g.sortOf(types.Typ[types.Uint8])}
		}
	}
	specFail("cannot index %v", t)
	return SVal{}
}

func (e *SpecEnv) sliceOf(base SVal, x *ast.SliceExpr) SVal {
	g := e.g
	var lo, hi string
	t := base.T
	var ptr, ln, cp string
	var elem types.Type
	if et, ok := deref(t); ok {
		if at, isArr := et.Underlying().(*types.Array); isArr && !isOpaque(et) {
			ptr, ln, cp, elem = base.S, g.M.IxLit(at.Len()), g.M.IxLit(at.Len()), at.Elem()
		} else {
			// C-style pointer to the first of several elements: p[lo:hi] needs an explicit upper bound
			if x.High == nil {
				specFail("slicing a pointer needs an upper bound")
			}
			ptr, elem = base.S, et
			ln = e.toIX(e.eval(x.High))
			cp = ln
		}
	} else if st, ok := t.Underlying().(*types.Slice); ok {
		ptr, ln, cp, elem = app("sl.ptr", base.S), app("sl.len", base.S), app("sl.cap", base.S), st.Elem()
	} else if at, ok := t.Underlying().(*types.Array); ok {
		ptr, ln, cp, elem = base.Addr, g.M.IxLit(at.Len()), g.M.IxLit(at.Len()), at.Elem()
	} else {
		specFail("cannot slice %v", t)
	}
	lo = g.M.IxLit(0)
	hi = ln
	if x.Low != nil {
		lo = e.toIX(e.eval(x.Low))
	}
	if x.High != nil {
		hi = e.toIX(e.eval(x.High))
	}
	es := g.L.Size(elem)
	return SVal{S: app("mksl", g.ptrAdd(ptr, g.M.ixMulC(lo, es)), g.M.ixSub(hi, lo), g.M.ixSub(cp, lo)), T: types.NewSlice(elem), Sort: "Slice"}
}

// nonZeroCGlobals: library constants known to be non-zero (the Montgomery representations of 1).
var nonZeroCGlobals = map[string]bool{"BLS12_381_pR": true, "BLS12_381_rR": true}

// abstractC turns an aggregate C value (Fp2, E1, E2) into its abstract value: a constructor applied to its cells.
// (On the Go side the same types are single opaque cells holding that abstract value.)
func (e *SpecEnv) abstractC(v SVal) SVal {
	g := e.g
	if v.T == nil || !isComposite(v.T) || v.Addr == "" {
		return v
	}
	n, ok := v.T.(*types.Named)
	if !ok || n.Obj().Pkg() != cPkg {
		return v
	}
	cell := func(off int64) string { return g.loadCell(e.st, g.ptrAdd(v.Addr, g.M.IxLit(off)), "Int") }
	fp2 := func(off int64) string { return app("fp2c", cell(off), cell(off+1)) }
	switch n.Obj().Name() {
	case "Fp2":
		return SVal{S: fp2(0), Sort: "Int", T: typInt}
	case "E1":
		return SVal{S: app("e1c", cell(0), cell(1), cell(2)), Sort: "Int", T: typInt}
	case "E2":
		return SVal{S: app("e2c", fp2(0), fp2(2), fp2(4)), Sort: "Int", T: typInt}
	}
	return v
}

func (e *SpecEnv) unify(a, b *SVal) {
	// give nil / untyped constants the type of the other operand
	g := e.g
	fix := func(n, o *SVal) {
		if n.IsNil && !o.IsNil && o.Sort != "" {
			n.S = g.L.Zero(o.Sort)
			n.Sort = o.Sort
			n.T = o.T
			n.IsNil = false
		}
		if n.Untyped && !o.Untyped && o.T != nil && g.M.BV && isInteger(o.T) && o.Sort != n.Sort {
			// re-render the literal at the other operand's width
			if lit, ok := parseBVLit(n.S); ok {
				n.S = g.M.IntLit(lit, o.T)
				n.Sort = o.Sort
				n.T = o.T
			}
		}
		if n.Untyped && !o.Untyped && o.T != nil {
			n.T = o.T
		}
	}
	fix(a, b)
	fix(b, a)
}

func parseBVLit(s string) (*big.Int, bool) {
	if strings.HasPrefix(s, "(_ bv") {
		f := strings.Fields(s[5:])
		n, ok := new(big.Int).SetString(f[0], 10)
		return n, ok
	}
	return nil, false
}

func (e *SpecEnv) evalBinary(x *ast.BinaryExpr) SVal {
	g := e.g
	a := e.abstractC(e.eval(x.X))
	b := e.abstractC(e.eval(x.Y))
	e.unify(&a, &b)
	bt := types.Typ[types.Bool]
	switch x.Op {
	case token.LAND:
		return SVal{S: sAnd(a.S, b.S), T: bt, Sort: "Bool"}
	case token.LOR:
		return SVal{S: sOr(a.S, b.S), T: bt, Sort: "Bool"}
	case token.EQL:
		return SVal{S: g.eqTerm(a.S, b.S), T: bt, Sort: "Bool"}
	case token.NEQ:
		return SVal{S: sNot(g.eqTerm(a.S, b.S)), T: bt, Sort: "Bool"}
	case token.LSS, token.LEQ, token.GTR, token.GEQ:
		t := a.T
		if t == nil {
			t = typInt
		}
		if g.M.BV && !isInteger(t) {
			t = typInt
		}
		return SVal{S: g.cmp(x.Op.String(), a.S, b.S, t), T: bt, Sort: "Bool"}
	}
	if a.Sort == "Str" && b.Sort == "Str" && x.Op == token.ADD {
		return SVal{S: app("sconcat", a.S, b.S), T: types.Typ[types.String], Sort: "Str"}
	}
	// arithmetic: mathematical in int mode (no wrap), machine in bv mode
	t := a.T
	if a.Untyped && !b.Untyped {
		t = b.T
	}
	if t == nil {
		t = typInt
	}
	op := x.Op.String()
	if g.M.BV {
		return SVal{S: g.binopBV(op, a.S, b.S, t, orInt(b.T)), T: t, Sort: a.Sort, Untyped: a.Untyped && b.Untyped}
	}
	var s string
	switch op {
	case "+", "-", "*":
		s = app(op, a.S, b.S)
	case "/":
		s = app("div", a.S, b.S)
	case "%":
		s = app("mod", a.S, b.S)
	default:
		s = g.binop(op, a.S, b.S, t, orInt(b.T))
	}
	return SVal{S: s, T: t, Sort: "Int", Untyped: a.Untyped && b.Untyped}
}

func orInt(t types.Type) types.Type {
	if t == nil {
		return typInt
	}
	return t
}

func (e *SpecEnv) lenOf(v SVal) string {
	g := e.g
	if v.T == nil {
		specFail("len of untyped")
	}
	t := v.T
	if et, ok := deref(t); ok {
		t = et
	}
	switch u := t.Underlying().(type) {
	case *types.Slice:
		return app("sl.len", v.S)
	case *types.Array:
		return g.M.IxLit(u.Len())
	case *types.Basic:
		return app("slen", v.S)
	case *types.Map:
		return app("select", g.mapCard(e.st), pObj(v.S))
	}
	specFail("len of %v", v.T)
	return ""
}

func (e *SpecEnv) resolveType(x ast.Expr) types.Type {
	switch x := x.(type) {
	case *ast.StarExpr:
		return types.NewPointer(e.resolveType(x.X))
	case *ast.ParenExpr:
		return e.resolveType(x.X)
	case *ast.Ident:
		if obj := types.Universe.Lookup(x.Name); obj != nil {
			if tn, ok := obj.(*types.TypeName); ok {
				return tn.Type()
			}
		}
		if e.pkg != nil {
			if obj := e.pkg.Scope().Lookup(x.Name); obj != nil {
				if tn, ok := obj.(*types.TypeName); ok {
					return tn.Type()
				}
			}
		}
	case *ast.SelectorExpr:
		if id, ok := x.X.(*ast.Ident); ok {
			for _, p := range e.g.P.SSA.AllPackages() {
				if p.Pkg.Name() == id.Name || p.Pkg.Path() == id.Name {
					if obj := p.Pkg.Scope().Lookup(x.Sel.Name); obj != nil {
						if tn, ok := obj.(*types.TypeName); ok {
							return tn.Type()
						}
					}
				}
			}
		}
	case *ast.ArrayType:
		if x.Len == nil {
			return types.NewSlice(e.resolveType(x.Elt))
		}
	}
	specFail("cannot resolve type %s", exprString(x))
	return nil
}

func exprString(x ast.Expr) string { return types.ExprString(x) }

func (e *SpecEnv) evalCall(c *ast.CallExpr) SVal {
	g := e.g
	bt := types.Typ[types.Bool]
	name := ""
	if id, ok := c.Fun.(*ast.Ident); ok {
		name = id.Name
	}
	args := c.Args
	switch name {
	case "implies":
		a, b := e.eval(args[0]), e.eval(args[1])
		return SVal{S: sImp(a.S, b.S), T: bt, Sort: "Bool"}
	case "iff":
		a, b := e.eval(args[0]), e.eval(args[1])
		return SVal{S: sEq(a.S, b.S), T: bt, Sort: "Bool"}
	case "ite":
		c0, a, b := e.eval(args[0]), e.eval(args[1]), e.eval(args[2])
		e.unify(&a, &b)
		return SVal{S: sIte(c0.S, a.S, b.S), T: a.T, Sort: a.Sort}
	case "old":
		if e.old == nil {
			specFail("old() not available here")
		}
		// aggregates are turned into their abstract value while still in the old state
		oe := e.with(e.old)
		return oe.abstractC(oe.eval(args[0]))
	case "len":
		return SVal{S: e.lenOf(e.eval(args[0])), T: typInt, Sort: g.M.IX()}
	case "cap":
		return SVal{S: app("sl.cap", e.eval(args[0]).S), T: typInt, Sort: g.M.IX()}
	case "forall", "exists":
		// forall(k, lo, hi, body): k ranges over IX in [lo,hi)
		k := args[0].(*ast.Ident).Name
		q := g.fresh(k)
		sub := e.bind(k, SVal{S: q, T: typInt, Sort: g.M.IX()})
		sub.bound = append(append([]string{}, e.bound...), q)
		var pats []string
		sub.pats = &pats
		var guard, body string
		if len(args) == 4 {
			lo, hi := e.toIX(e.eval(args[1])), e.toIX(e.eval(args[2]))
			// quantifier discipline: quantify over the absolute cell index of the first slice indexed by k,
			// so that the trigger is a select on a bare bound variable
			base, bx := e.indexBaseX(args[3], k)
			if base != "" && base != g.M.IxLit(0) {
				sub = e.bind(k, SVal{S: g.M.ixSub(q, base), T: typInt, Sort: g.M.IX()})
				sub.bound = append(append([]string{}, e.bound...), q)
				sub.pats = &pats
				guard = sAnd(g.M.ixLe(g.M.ixAdd(base, lo), q), g.M.ixLt(q, g.M.ixAdd(base, hi)))
			} else {
				guard = sAnd(g.M.ixLe(lo, q), g.M.ixLt(q, hi))
			}
			body = sub.eval(args[3]).S
			if bx != nil && !g.M.BV {
				// name the elements of every sequence the clause indexes by the bound variable (touch_* is true of everything):
				// when a goal is split into its conjuncts, each part still carries the terms the hypotheses about those
				// sequences trigger on, whichever sequence a hypothesis was rebased on
				seen := map[string]bool{}
				for _, cx := range e.lastCands {
					func() {
						defer func() { recover() }()
						cell := sub.eval(&ast.IndexExpr{X: cx, Index: ast.NewIdent(k)})
						if seen[cell.S] {
							return
						}
						seen[cell.S] = true
						switch cell.Sort {
						case "Int", "Bool", "Ptr", "Slice", "Iface":
							guard = sAnd(guard, app("touch_"+cell.Sort, cell.S))
						}
					}()
				}
			}
		} else {
			guard = "true"
			body = sub.eval(args[1]).S
		}
		if name == "forall" {
			if len(pats) > 0 {
				// explicit triggers: the sequence elements indexed by the bare bound variable (at / ptAt)
				seen := map[string]bool{}
				var ps []string
				for _, p := range pats {
					if !seen[p] {
						seen[p] = true
						ps = append(ps, ":pattern ("+p+")")
					}
				}
				return SVal{S: fmt.Sprintf("(forall ((%s %s)) (! %s %s))", q, g.M.IX(), sImp(guard, body), strings.Join(ps, " ")), T: bt, Sort: "Bool"}
			}
			return SVal{S: fmt.Sprintf("(forall ((%s %s)) %s)", q, g.M.IX(), sImp(guard, body)), T: bt, Sort: "Bool"}
		}
		return SVal{S: fmt.Sprintf("(exists ((%s %s)) %s)", q, g.M.IX(), sAnd(guard, body)), T: bt, Sort: "Bool"}
	case "fresh":
		// fresh(p): the object of p was allocated by this call
		v := e.eval(args[0])
		p := e.ptrOf(v)
		if e.alloc0 == "" {
			specFail("fresh() not available here")
		}
		return SVal{S: sAnd(app(">", pObj(p), e.alloc0), app("<=", pObj(p), e.st.Alloc)), T: bt, Sort: "Bool"}
	case "typeis":
		v := e.eval(args[0])
		t := e.resolveType(args[1])
		return SVal{S: sEq(app("if.dyn", v.S), fmt.Sprint(g.typeID(t))), T: bt, Sort: "Bool"}
	case "dyn":
		v := e.eval(args[0])
		return SVal{S: app("if.dyn", v.S), T: typInt, Sort: "Int"}
	case "unbox":
		// unbox(iface, T): the value of dynamic type T held by the interface
		v := e.eval(args[0])
		t := e.resolveType(args[1])
		if _, isPtr := t.Underlying().(*types.Pointer); isPtr {
			return SVal{S: app("if.val", v.S), T: t, Sort: "Ptr"}
		}
		return e.load(app("if.val", v.S), t)
	case "rndof":
		// rndof(lvalue): the name of the random byte that crypto/rand.Read wrote at that location
		v := e.eval(args[0])
		if v.Addr == "" {
			specFail("rndof: argument is not a location")
		}
		return SVal{S: app("rnd", pObj(v.Addr), pOff(v.Addr)), T: types.Typ[types.Uint8], Sort: "Int"}
	case "box":
		// box(p, T): the interface value holding the pointer p with dynamic type T
		v := e.eval(args[0])
		t := e.resolveType(args[1])
		return SVal{S: app("mkif", fmt.Sprint(g.typeID(t)), v.S), Sort: "Iface"}
	case "has":
		m, k := e.eval(args[0]), e.eval(args[1])
		mt := m.T.Underlying().(*types.Map)
		return SVal{S: app("select", app("select", g.mapDom(e.st, g.L.CellSort(mt.Key())), pObj(m.S)), k.S), T: bt, Sort: "Bool"}
	case "obj":
		v := e.eval(args[0])
		return SVal{S: pObj(e.ptrOf(v)), T: typInt, Sort: "Int"}
	case "ownedby":
		// ownedby(p, m): the heap object p was last inserted into map m
		p0 := e.eval(args[0])
		m := e.eval(args[1])
		return SVal{S: sEq(g.loadCell(e.st, g.mkptr(pObj(p0.S), g.M.IxLit(0)), "GOwn"), pObj(m.S)), T: bt, Sort: "Bool"}
	case "keyof":
		// keyof(p): the key under which the heap object p was last inserted into a map
		p0 := e.eval(args[0])
		return SVal{S: g.loadCell(e.st, g.mkptr(pObj(p0.S), g.M.IxLit(1)), "GOwn"), T: typInt, Sort: "Int"}
	case "typed":
		// typed(p): p points to the start of a heap object of its (heap-only) static element type
		v := e.eval(args[0])
		et, ok := deref(v.T)
		if !ok || !g.isHeapType(et) {
			specFail("typed(): argument is not a pointer to a declared heaptype")
		}
		return SVal{S: sAnd(sEq(app("objtype", pObj(v.S)), fmt.Sprint(g.typeID(et))), sEq(pOff(v.S), g.M.IxLit(0)), app("<=", pObj(v.S), e.st.Alloc)), T: bt, Sort: "Bool"}
	case "disjoint":
		// disjoint(r1, r2): the two locations (assigns-clause syntax) share no cell
		r1, err1 := e.EvalRegion(args[0])
		r2, err2 := e.EvalRegion(args[1])
		if err1 != nil || err2 != nil {
			specFail("disjoint: %v %v", err1, err2)
		}
		if r1.Whole || r2.Whole || r1.TypeID != "" || r2.TypeID != "" {
			return SVal{S: sNot(sEq(r1.Obj, r2.Obj)), T: bt, Sort: "Bool"}
		}
		return SVal{S: sOr(sNot(sEq(r1.Obj, r2.Obj)), g.M.ixLe(r1.Hi, r2.Lo), g.M.ixLe(r2.Hi, r1.Lo)), T: bt, Sort: "Bool"}
	case "cglobal":
		// cglobal(NAME): the (constant) value of the C library global NAME
		id, ok := args[0].(*ast.Ident)
		if !ok {
			specFail("cglobal(NAME)")
		}
		c := g.declare("cglobal_"+sanitize(id.Name), "Int")
		if nonZeroCGlobals[id.Name] && !g.rangeAssumed["nz:"+id.Name] {
			g.rangeAssumed["nz:"+id.Name] = true
			g.prelude = append(g.prelude, "(assert (not (= "+c+" 0)))")
		}
		return SVal{S: c, Sort: "Int", T: typInt}
	case "cglobal2":
		// cglobal2(NAME): the value of a library constant of type Fp2
		id, ok := args[0].(*ast.Ident)
		if !ok {
			specFail("cglobal2(NAME)")
		}
		c0 := g.declare("cglobal_"+sanitize(id.Name)+"_0", "Int")
		c1 := g.declare("cglobal_"+sanitize(id.Name)+"_1", "Int")
		return SVal{S: app("fp2c", c0, c1), Sort: "Int", T: typInt}
	case "visited":
		// visited(k): key k has already been produced by the map iteration of the enclosing loop
		if e.iter == "" {
			specFail("visited() is only available in invariants of a loop ranging over a map")
		}
		k := e.eval(args[0])
		return SVal{S: app("select", app("select", g.mapVis(e.st, e.iterKeySort), pObj(e.iter)), k.S), T: bt, Sort: "Bool"}
	case "forallkey":
		// forallkey(m, k, body): body holds for every key k of the map m
		m := e.eval(args[0])
		mt, ok := m.T.Underlying().(*types.Map)
		if !ok || len(args) != 3 {
			specFail("forallkey(m, k, body): m must be a map")
		}
		ks := g.L.CellSort(mt.Key())
		kn := args[1].(*ast.Ident).Name
		q := g.fresh(kn)
		sub := e.bind(kn, SVal{S: q, T: mt.Key(), Sort: ks})
		sub.bound = append(append([]string{}, e.bound...), q)
		sub.pats = nil
		body := sub.eval(args[2])
		dom := app("select", app("select", g.mapDom(e.st, ks), pObj(m.S)), q)
		return SVal{S: fmt.Sprintf("(forall ((%s %s)) (! %s :pattern (%s)))", q, ks, sImp(dom, body.S), dom), T: bt, Sort: "Bool"}
	case "vlensum":
		// vlensum(m): the sum of the lengths of the values of the slice-valued map m (ghost, maintained by every update)
		m := e.eval(args[0])
		return SVal{S: app("select", g.rawHeap(e.st, "M_vlen", "(Array Int Int)"), pObj(m.S)), T: typInt, Sort: "Int"}
	case "vissum":
		// vissum(): the sum of the lengths of the values produced so far by the map iteration of the enclosing loop
		if e.iter == "" {
			specFail("vissum() is only available in invariants of a loop ranging over a map")
		}
		return SVal{S: app("select", g.rawHeap(e.st, "M_vissum", "(Array Int Int)"), pObj(e.iter)), T: typInt, Sort: "Int"}
	case "nvisited":
		// nvisited(): number of keys produced so far by the map iteration of the enclosing loop
		if e.iter == "" {
			specFail("nvisited() is only available in invariants of a loop ranging over a map")
		}
		return SVal{S: app("select", g.rawHeap(e.st, "M_nvis", "(Array Int Int)"), pObj(e.iter)), T: types.Typ[types.Int], Sort: "Int"}
	case "iserr":
		// iserr(e, *T) / iserr(e, sentinelVar): errors.As / errors.Is class membership
		v := e.eval(args[0])
		if id, ok := args[1].(*ast.Ident); ok && e.pkg != nil {
			if gv := g.findGlobal(e.pkg, id.Name); gv != nil {
				return SVal{S: app("errclass", v.S, g.sentinelClass(gv)), T: bt, Sort: "Bool"}
			}
		}
		t := e.resolveType(args[1])
		return SVal{S: app("errclass", v.S, fmt.Sprint(g.typeID(t))), T: bt, Sort: "Bool"}
	case "valid":
		// valid(p, n): n elements of p's element type are addressable at p
		p := e.eval(args[0])
		n := e.toIX(e.eval(args[1]))
		var es int64 = 1
		var ptr string
		if et, ok := deref(p.T); ok {
			es = g.L.Size(et)
			ptr = p.S
		} else if st, ok := p.T.Underlying().(*types.Slice); ok {
			es = g.L.Size(st.Elem())
			ptr = app("sl.ptr", p.S)
		} else {
			specFail("valid: not a pointer")
		}
		return SVal{S: sOr(g.M.ixLe(n, g.M.IxLit(0)), sAnd(g.nonNil(ptr), g.M.ixLe(g.M.IxLit(0), pOff(ptr)),
			g.M.ixLe(g.M.ixAdd(pOff(ptr), g.M.ixMulC(n, es)), app("objsize", pObj(ptr))))), T: bt, Sort: "Bool"}
	case "nothingAssigned":
		// every heap (including ghost state) is exactly as in the old state
		if e.old == nil {
			specFail("nothingAssigned() needs an old state")
		}
		var cs []string
		for _, h := range g.allHeapNames() {
			cur, was := h+"@0", h+"@0"
			if t, ok := e.st.H[h]; ok {
				cur = t
			}
			if t, ok := e.old.H[h]; ok {
				was = t
			}
			if cur == was {
				continue
			}
			// objects that existed in the old state are untouched (fresh temporaries do not count)
			q := g.fresh("o")
			cs = append(cs, fmt.Sprintf("(forall ((%s Int)) (! (=> (<= %s %s) (= (select %s %s) (select %s %s))) :pattern ((select %s %s))))", q, q, e.old.Alloc, cur, q, was, q, cur, q))
		}
		return SVal{S: sAnd(cs...), T: bt, Sort: "Bool"}
	case "unchanged":
		// unchanged(lvalue): value equals its value in the old state
		if e.old == nil {
			specFail("unchanged() needs an old state")
		}
		return e.unchanged(args[0])
	}
	// type conversion
	if name != "" {
		if tn, ok := types.Universe.Lookup(name).(*types.TypeName); ok && len(args) == 1 {
			v := e.eval(args[0])
			if isInteger(tn.Type()) && v.T != nil && isInteger(v.T) {
				if v.Untyped {
					if lit, ok := parseBVLit(v.S); ok {
						return SVal{S: g.M.IntLit(lit, tn.Type()), T: tn.Type(), Sort: g.sortOf(tn.Type())}
					}
					return SVal{S: v.S, T: tn.Type(), Sort: g.sortOf(tn.Type())}
				}
				if g.M.BV {
					return SVal{S: g.convertInt(v.S, v.T, tn.Type()), T: tn.Type(), Sort: g.sortOf(tn.Type())}
				}
				return SVal{S: v.S, T: tn.Type(), Sort: "Int"} // mathematical: value-preserving in contracts
			}
		}
		if p, ok := g.DB.Preds[name]; ok {
			if len(args) != len(p.Params) {
				specFail("pred %s: want %d args", name, len(p.Params))
			}
			sub := e
			vals := make([]SVal, len(args))
			for i := range args {
				vals[i] = e.eval(args[i])
			}
			// predicates are closed: only parameters are visible
			n := *e
			n.vars = map[string]SVal{}
			for i, pn := range p.Params {
				n.vars[pn] = vals[i]
			}
			sub = &n
			return sub.eval(p.Body)
		}
		if name == "mpairs" {
			return e.evalPairs(args)
		}
		if cf, ok := chunkFnOf(name); ok {
			return e.evalChunk(cf, args)
		}
		if v, ok := e.evalSeq(name, args); ok {
			return v
		}
		if op, gather, ok := foldOpOf(name); ok {
			return e.evalFold(name, op, gather, args)
		}
		if h, ok := hornerOpOf(name); ok {
			return e.evalHorner(h, args)
		}
		if name == "seqid" && len(args) == 1 {
			if v := e.eval(args[0]); v.Sort == "Str" {
				return SVal{S: app("seqOfStr", v.S), Sort: "Int", T: typInt}
			}
		}
		if tf, ok := Theory[name]; ok {
			var as []string
			for i, a := range args {
				v := e.abstractC(e.eval(a))
				if v.IsNil {
					specFail("nil argument to %s", name)
				}
				s := v.S
				if i < len(tf.Args) && tf.Args[i] == "Int" && g.M.BV && strings.HasPrefix(v.Sort, "(_ BitVec") {
					s = app("bv2nat", s)
				}
				as = append(as, s)
			}
			if tf.HeapArg == "byte" {
				if (name == "be48" || name == "be32" || name == "be16") && len(as) == 1 && !g.M.BV && (!g.isC || e.cOwn) {
					// the leading byte of a big-endian string is a byte (the other bytes only enter through a bounded abstract function)
					ground := true
					for _, bv := range e.bound {
						if strings.Contains(as[0], bv) {
							ground = false
						}
					}
					p0 := app("sl.ptr", as[0])
					b0 := g.loadCell(e.st, p0, "Int")
					if ground && !g.rangeAssumed[b0] {
						g.rangeAssumed[b0] = true
						g.assume(sAnd(app("<=", "0", b0), app("<=", b0, "255")))
					}
				}
				as = append([]string{g.heapTerm(e.st, g.L.CellSort(types.Typ[types.Uint8]))}, as...)
			} else if tf.HeapArg != "" {
				as = append([]string{g.heapTerm(e.st, tf.HeapArg)}, as...)
			}
			ret := tf.Ret
			if g.M.BV && tf.RetBV != "" {
				ret = tf.RetBV
			}
			if len(as) == 0 {
				return SVal{S: tf.SMT, Sort: ret, T: tf.RetT}
			}
			return SVal{S: app(tf.SMT, as...), Sort: ret, T: tf.RetT}
		}
	}
	specFail("unknown function %s", exprString(c.Fun))
	return SVal{}
}

func (e *SpecEnv) ptrOf(v SVal) string {
	switch v.Sort {
	case "Ptr":
		return v.S
	case "Slice":
		return app("sl.ptr", v.S)
	case "Iface":
		return app("if.val", v.S)
	}
	specFail("not a reference value (sort %s)", v.Sort)
	return ""
}

func (e *SpecEnv) unchanged(x ast.Expr) SVal {
	g := e.g
	bt := types.Typ[types.Bool]
	now := e.eval(x)
	was := e.with(e.old).eval(x)
	if now.T != nil && isComposite(now.T) {
		// compare cell by cell / range by range
		var cs []string
		for _, r := range g.L.Ranges(now.T) {
			cs = append(cs, e.rangeEq(now.Addr, e.st, was.Addr, e.old, r.Sort, r.Off, g.M.IxLit(r.Count), r.Count))
		}
		return SVal{S: sAnd(cs...), T: bt, Sort: "Bool"}
	}
	if st, ok := now.T.Underlying().(*types.Slice); ok && false {
		_ = st
	}
	return SVal{S: sEq(now.S, was.S), T: bt, Sort: "Bool"}
}

// rangeEq: n cells of sort at a (state sa) equal those at b (state sb)
func (e *SpecEnv) rangeEq(a string, sa *State, b string, sb *State, sort string, off int64, n string, nconst int64) string {
	g := e.g
	if nconst >= 0 && nconst <= 8 {
		var cs []string
		for k := int64(0); k < nconst; k++ {
			kk := g.M.IxLit(off + k)
			cs = append(cs, sEq(g.loadCell(sa, g.ptrAdd(a, kk), sort), g.loadCell(sb, g.ptrAdd(b, kk), sort)))
		}
		return sAnd(cs...)
	}
	q := g.fresh("k")
	offT := g.M.IxLit(off)
	return fmt.Sprintf("(forall ((%s %s)) %s)", q, g.M.IX(), sImp(sAnd(g.M.ixLe(g.M.IxLit(0), q), g.M.ixLt(q, n)),
		sEq(g.loadCell(sa, g.ptrAdd(a, g.M.ixAdd(offT, q)), sort), g.loadCell(sb, g.ptrAdd(b, g.M.ixAdd(offT, q)), sort))))
}

// EvalRegion evaluates an assigns-clause expression to a region.
func (e *SpecEnv) EvalRegion(x ast.Expr) (r Region, err error) {
	defer func() {
		if rr := recover(); rr != nil {
			if se, ok := rr.(specError); ok {
				err = se
				return
			}
			panic(rr)
		}
	}()
	g := e.g
	src := exprString(x)
	switch x := x.(type) {
	case *ast.CallExpr:
		if id, ok := x.Fun.(*ast.Ident); ok && id.Name == "obj" {
			v := e.eval(x.Args[0])
			if v.T != nil {
				if _, isMap := v.T.Underlying().(*types.Map); isMap {
					return Region{Obj: pObj(v.S), Whole: true, Map: true, Sorts: []string{}, Src: src}, nil
				}
			}
			return Region{Obj: pObj(e.ptrOf(v)), Whole: true, Src: src}, nil
		}
		if id, ok := x.Fun.(*ast.Ident); ok && id.Name == "ghost" {
			// all ghost state attached to the object behind an interface or pointer value
			v := e.eval(x.Args[0])
			return Region{Obj: pObj(e.ptrOf(v)), Whole: true, Sorts: []string{"GInt"}, Src: src}, nil
		}
		if id, ok := x.Fun.(*ast.Ident); ok && id.Name == "owned" {
			// owned(m, T): all objects of heap-only type T whose ghost owner is the map m
			m := e.eval(x.Args[0])
			t := e.resolveType(x.Args[1])
			if !g.isHeapType(t) {
				specFail("owned(_, %v): not declared as heaptype", t)
			}
			return Region{TypeID: fmt.Sprint(g.typeID(t)), Owner: pObj(m.S), T: t, Obj: "0", Src: src}, nil
		}
		if id, ok := x.Fun.(*ast.Ident); ok && id.Name == "alltyped" {
			t := e.resolveType(x.Args[0])
			if !g.isHeapType(t) {
				specFail("alltyped(%v): not declared as heaptype", t)
			}
			return Region{TypeID: fmt.Sprint(g.typeID(t)), T: t, Obj: "0", Src: src}, nil
		}
	case *ast.SliceExpr:
		s := e.sliceOf(e.eval(x.X), x)
		el := s.T.(*types.Slice).Elem()
		p := app("sl.ptr", s.S)
		return Region{Obj: pObj(p), Lo: pOff(p), Hi: g.M.ixAdd(pOff(p), g.M.ixMulC(app("sl.len", s.S), g.L.Size(el))), T: el, Src: src}, nil
	case *ast.StarExpr:
		p := e.eval(x.X)
		et, ok := deref(p.T)
		if !ok {
			specFail("assigns *: not a pointer")
		}
		return Region{Obj: pObj(p.S), Lo: pOff(p.S), Hi: g.M.ixAdd(pOff(p.S), g.M.IxLit(g.L.Size(et))), T: et, Cells: g.L.Size(et), Src: src}, nil
	}
	if id, ok := x.(*ast.Ident); ok {
		// a variable: its own storage (for a local scalar of a C function that is the cell in the locals' heap)
		if lv, ok := e.vars[id.Name]; ok && lv.Addr != "" && lv.T != nil && isLocalType(lv.T) {
			return Region{Obj: pObj(lv.Addr), Lo: pOff(lv.Addr), Hi: g.M.ixAdd(pOff(lv.Addr), g.M.IxLit(1)), T: lv.T, Cells: 1, Src: src}, nil
		}
	}
	v := e.eval(x)
	if v.Addr == "" {
		specFail("assigns: %s is not a location", src)
	}
	return Region{Obj: pObj(v.Addr), Lo: pOff(v.Addr), Hi: g.M.ixAdd(pOff(v.Addr), g.M.IxLit(g.L.Size(v.T))), T: v.T, Cells: g.L.Size(v.T), Src: src}, nil
}


// indexBase finds, in body, the first expression s[k] indexing a one-cell-element slice or array by the
// bare variable k and returns the cell offset of s[0] (or "" if there is none).
func (e *SpecEnv) indexBase(body ast.Expr, k string) string {
	b, _ := e.indexBaseX(body, k)
	return b
}

// indexBaseX also returns the indexed expression (s in s[k]) that was chosen.
func (e *SpecEnv) indexBaseX(body ast.Expr, k string) (string, ast.Expr) {
	g := e.g
	type cand struct {
		src, base string
		x         ast.Expr
	}
	var cands []cand
	ast.Inspect(body, func(n ast.Node) bool {
		ix, ok := n.(*ast.IndexExpr)
		if !ok {
			return true
		}
		id, ok := ix.Index.(*ast.Ident)
		if !ok || id.Name != k {
			return true
		}
		func() {
			defer func() { recover() }()
			base := e.eval(ix.X)
			t := base.T
			if t == nil {
				return
			}
			found := ""
			if et, ok := deref(t); ok {
				if at, ok := et.Underlying().(*types.Array); ok && !isOpaque(et) {
					if g.L.Size(at.Elem()) == 1 {
						found = pOff(base.S)
					}
				} else if g.L.Size(et) == 1 {
					found = pOff(base.S) // C-style pointer to the first of several one-cell elements
				}
			} else {
				switch u := t.Underlying().(type) {
				case *types.Slice:
					if g.L.Size(u.Elem()) == 1 {
						found = pOff(app("sl.ptr", base.S))
					}
				case *types.Array:
					if g.L.Size(u.Elem()) == 1 && base.Addr != "" {
						found = pOff(base.Addr)
					}
				}
			}
			if found != "" {
				cands = append(cands, cand{exprString(ix.X), found, ix.X})
			}
		}()
		return true
	})
	if len(cands) == 0 {
		return "", nil
	}
	// the first sequence in source order is the one the clause is rebased on
	var xs []ast.Expr
	for _, c := range cands {
		xs = append(xs, c.x)
	}
	e.lastCands = xs
	return cands[0].base, cands[0].x
}

func isByteType(t types.Type) bool {
	b, ok := t.Underlying().(*types.Basic)
	return ok && b.Kind() == types.Uint8
}
