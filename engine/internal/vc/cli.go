package vc

import (
	"flag"
	"fmt"
	"os"
	"path/filepath"
	"regexp"
	"sort"
	"strings"
	"time"
)

var RepoDir = "/repo"
var VerifDir = "/verif"

// OutDir receives evidence/ and replay/ (the verif directory unless a development sweep redirects it)
var OutDir = ""

func LoadSpecs() (*SpecDB, error) {
	db := NewSpecDB()
	for _, f := range []struct{ path, pkg string }{
		{filepath.Join(RepoDir, "contracts_verif.go"), "crypto"},
		{filepath.Join(RepoDir, "hash", "contracts_verif.go"), "hash"},
		{filepath.Join(RepoDir, "random", "contracts_verif.go"), "random"},
	} {
		if _, err := os.Stat(f.path); err != nil {
			continue
		}
		if err := db.LoadFile(f.path, f.pkg); err != nil {
			return nil, err
		}
	}
	ts, _ := filepath.Glob(filepath.Join(VerifDir, "contracts", "trusted", "*.spec"))
	sort.Strings(ts)
	for _, t := range ts {
		if err := db.LoadFile(t, ""); err != nil {
			return nil, err
		}
	}
	if len(db.Errors) > 0 {
		return db, fmt.Errorf("contract errors:\n  %s", strings.Join(db.Errors, "\n  "))
	}
	return db, nil
}

func Main(args []string) int {
	os.Setenv("PATH", "/opt/veriftools/go1.26.8/bin:"+os.Getenv("PATH")+":/usr/local/bin:/usr/bin:/bin:/opt/veriftools/pyvenv/bin")
	for _, kv := range [][2]string{{"GOTOOLCHAIN", "local"}, {"GOFLAGS", "-mod=mod"}, {"GOPROXY", "off"}, {"GOSUMDB", "off"}, {"CGO_ENABLED", "1"}, {"GOWORK", "off"}} {
		os.Setenv(kv[0], kv[1])
	}
	// development only (seeded-change sweeps on a scratch clone): the registered checks never set these
	if v := os.Getenv("VCHECK_REPO"); v != "" {
		RepoDir = v
	}
	if v := os.Getenv("VCHECK_OUT"); v != "" {
		OutDir = v
	}
	if v := os.Getenv("VCHECK_VERIF"); v != "" {
		VerifDir = v // frozen copy of contracts/trusted and known_findings.json for a sweep
	}
	switch args[0] {
	case "list":
		P, err := Load(RepoDir, "verif")
		if err != nil {
			fmt.Fprintln(os.Stderr, err)
			return 2
		}
		for _, k := range P.SortedFuncKeys() {
			f := P.Funcs[k]
			fmt.Printf("%s\t%d blocks\n", k, len(f.Blocks))
		}
		return 0
	case "verify":
		return cmdVerify(args[1:])
	case "check":
		return cmdCheck(args[1:])
	case "query":
		// query <tags> <func regexp> <obligation substring>: print the SMT query of one obligation
		P, err := Load(RepoDir, args[1])
		if err != nil {
			fmt.Fprintln(os.Stderr, err)
			return 2
		}
		db, err := LoadSpecs()
		if err != nil {
			fmt.Fprintln(os.Stderr, err)
			return 2
		}
		re := regexp.MustCompile(args[2])
		InstallDerivedLemmas(P, db)
		for _, k := range db.SortedKeys() {
			if sp := db.Funcs[k]; sp.IsC && re.MatchString(k) {
				r := GenCFunc(P, db, strings.TrimPrefix(k, "C."), sp)
				for _, o := range r.Obls {
					if strings.Contains(o.Name, args[3]) || (strings.HasSuffix(args[3], "$") && strings.HasSuffix(o.Name, strings.TrimSuffix(args[3], "$"))) {
						fmt.Print(r.Query(o, false))
						return 0
					}
				}
			}
		}
		for _, k := range P.SortedFuncKeys() {
			if !re.MatchString(k) {
				continue
			}
			r := GenFunc(P, db, P.Funcs[k], db.Funcs[k])
			for _, o := range r.Obls {
				if strings.Contains(o.Name, args[3]) {
					fmt.Print(r.Query(o, false))
					return 0
				}
			}
		}
		return 1
	case "replay":
		b, err := os.ReadFile(args[1])
		if err != nil {
			fmt.Fprintln(os.Stderr, err)
			return 2
		}
		os.Stdout.Write(b)
		return 0
	}
	fmt.Fprintln(os.Stderr, "unknown command", args[0])
	return 2
}

// cmdVerify is the developer entry point: verify the functions whose key matches a regexp.
func cmdVerify(args []string) int {
	fs := flag.NewFlagSet("verify", flag.ExitOnError)
	timeout := fs.Duration("timeout", 10*time.Second, "per-obligation timeout")
	keep := fs.String("keep", "", "directory to keep failing queries in")
	tags := fs.String("tags", "verif", "build tags")
	verbose := fs.Bool("v", false, "list every obligation")
	dump := fs.Bool("dump", false, "print the generated commands")
	showModel := fs.Bool("model", false, "print parameter values of counterexample models")
	fs.Parse(args)
	re := regexp.MustCompile(fs.Arg(0))
	P, err := Load(RepoDir, *tags)
	if err != nil {
		fmt.Fprintln(os.Stderr, err)
		return 2
	}
	db, err := LoadSpecs()
	if err != nil {
		fmt.Fprintln(os.Stderr, err)
		return 2
	}
	InstallDerivedLemmas(P, db)
	var rs []*FuncResult
	for _, k := range P.SortedFuncKeys() {
		if !re.MatchString(k) {
			continue
		}
		spec := db.Funcs[k]
		if spec != nil && spec.Trusted {
			continue
		}
		r := GenFunc(P, db, P.Funcs[k], spec)
		rs = append(rs, r)
		if *dump {
			for _, d := range r.Decls {
				fmt.Println(d)
			}
			for i, c := range r.Cmds {
				fmt.Printf("%4d %s\n", i, c)
			}
			for _, o := range r.Obls {
				fmt.Printf("OBL %s prefix=%d goal=%s\n", o.Name, o.Prefix, o.Goal)
			}
		}
	}
	for _, k := range db.SortedKeys() {
		sp := db.Funcs[k]
		if sp.IsC && !sp.Trusted && !sp.NoBody && re.MatchString(k) {
			r := GenCFunc(P, db, strings.TrimPrefix(k, "C."), sp)
			rs = append(rs, r)
			if *dump {
				for _, d := range r.Decls {
					fmt.Println(d)
				}
				for i, c := range r.Cmds {
					fmt.Printf("%4d %s\n", i, c)
				}
				for _, o := range r.Obls {
					fmt.Printf("OBL %s prefix=%d goal=%s\n", o.Name, o.Prefix, o.Goal)
				}
			}
		}
	}
	if fs.Arg(0) == "lemmas" {
		rs = LemmaObligations("")
	} else {
		rs = append(rs, LemmaObligationsFor("-", rs)...)
	}
	dir := *keep
	if dir == "" {
		dir, _ = os.MkdirTemp("", "vcheck-")
		defer os.RemoveAll(dir)
	} else {
		os.MkdirAll(dir, 0o755)
	}
	stats := &SolveStats{BySolver: map[string]int{}}
	t0 := time.Now()
	Discharge(rs, dir, *timeout, 12, stats)
	Retry(rs, dir, 3**timeout, stats)
	bad := 0
	for _, r := range rs {
		if r.Skipped != "" {
			fmt.Printf("SKIP %s: %s\n", r.Key, r.Skipped)
			continue
		}
		n, ok := 0, 0
		for _, o := range VacuousCanaries(r) {
			fmt.Printf("  VACUOUS %s (%s)\n", o.Name, o.Pos)
			bad++
		}
		for _, o := range r.Obls {
			if o.Canary {
				continue
			}
			n++
			if o.Result == "unsat" {
				ok++
				if *verbose {
					fmt.Printf("  ok   %-60s %s %.2fs %s\n", o.Name, o.Solver, o.Seconds, o.Pos)
				}
			} else {
				bad++
				fmt.Printf("  FAIL %-60s %s [%s] %s\n", o.Name, o.Result, o.Solver, o.Pos)
				if *showModel {
					fmt.Printf("         goal: %s\n", trunc(o.Goal, 700))
				}
				if *showModel && o.Model != "" {
					for _, kv := range ModelValues(o.Model, "a_") {
						fmt.Printf("         %s = %s\n", kv[0], kv[1])
					}
				}
			}
		}
		fmt.Printf("%s: %d/%d discharged (mode %s, %d loops)\n", r.Key, ok, n, r.Mode, r.Loops)
		for _, w := range r.Warnings {
			fmt.Printf("  warning: %s\n", w)
		}
	}
	fmt.Printf("queries=%d solver_seconds=%.1f wall=%.1fs by=%v\n", stats.Queries, stats.Seconds, time.Since(t0).Seconds(), stats.BySolver)
	if bad > 0 {
		return 1
	}
	return 0
}



// ModelValues extracts (name, value) pairs of the constants whose name starts with prefix from a solver model.
func ModelValues(model, prefix string) [][2]string {
	var out [][2]string
	lines := strings.Split(model, "\n")
	for i := 0; i < len(lines); i++ {
		ln := strings.TrimSpace(lines[i])
		if !strings.HasPrefix(ln, "(define-fun "+prefix) {
			continue
		}
		f := strings.Fields(ln)
		name := f[1]
		val := ""
		// value is on the same or the next line(s) until parentheses balance
		rest := strings.TrimSpace(strings.SplitN(ln, ")", 2)[1])
		depth := strings.Count(ln, "(") - strings.Count(ln, ")")
		val = rest
		for depth > 0 && i+1 < len(lines) {
			i++
			l2 := strings.TrimSpace(lines[i])
			depth += strings.Count(l2, "(") - strings.Count(l2, ")")
			val += " " + l2
		}
		val = strings.TrimSpace(val)
		// strip the sort and trailing paren
		out = append(out, [2]string{name, trunc(val, 200)})
	}
	return out
}
