package vc

import (
	"fmt"
	"os"
)

var RepoDir = "/repo"

func Main(args []string) int {
	switch args[0] {
	case "list":
		P, err := Load(RepoDir, "verif")
		if err != nil {
			fmt.Fprintln(os.Stderr, err)
			return 2
		}
		for _, k := range P.SortedFuncKeys() {
			f := P.Funcs[k]
			fmt.Printf("%s\t%d blocks\n", k, len(f.Blocks))
		}
		return 0
	}
	fmt.Fprintln(os.Stderr, "unknown command", args[0])
	return 2
}
