package vc

import (
	"sort"
	"os"
	"fmt"
	"go/token"
	"go/types"

	"golang.org/x/tools/go/ssa"
)

func (g *Gen) binOpTerm(x *ssa.BinOp, a, b string) string {
	t := x.X.Type()
	switch x.Op {
	case token.EQL, token.NEQ, token.LSS, token.LEQ, token.GTR, token.GEQ:
		if x.Op == token.EQL || x.Op == token.NEQ {
			if isComposite(t) {
				g.unsupported("comparison of composite values")
			}
		}
		return g.cmp(x.Op.String(), a, b, t)
	case token.LAND, token.LOR:
		g.unsupported("logical binop")
	}
	if bt, ok := t.Underlying().(*types.Basic); ok {
		if bt.Info()&types.IsString != 0 {
			return app("sconcat", a, b)
		}
		if bt.Info()&types.IsBoolean != 0 {
			switch x.Op {
			case token.AND:
				return sAnd(a, b)
			case token.OR:
				return sOr(a, b)
			}
		}
		if bt.Info()&types.IsInteger == 0 {
			g.unsupported("binop on %v", t)
		}
	}
	return g.binop(x.Op.String(), a, b, x.Type(), x.Y.Type())
}

func (g *Gen) unOpTerm(x *ssa.UnOp, a string) string {
	switch x.Op {
	case token.NOT:
		return sNot(a)
	case token.SUB:
		if g.M.BV {
			return app("bvneg", a)
		}
		return g.binop("-", "0", a, x.Type(), x.Type())
	case token.XOR:
		if g.M.BV {
			return app("bvnot", a)
		}
		_, signed := intBits(x.Type().Underlying().(*types.Basic))
		if signed {
			return app("-", app("-", a), "1")
		}
		w, _ := intBits(x.Type().Underlying().(*types.Basic))
		return app("-", pow2(w).String()+"", app("+", a, "1"))
	}
	g.unsupported("unop %s", x.Op)
	return ""
}

// loadVal loads a value of type t from pointer term p in the current state.
func (g *Gen) loadVal(p string, t types.Type) string {
	if isComposite(t) {
		// copy into a fresh temp object (value semantics)
		pre := g.cur.Alloc
		o := g.newObject(g.cur)
		tmp := g.mkptr(o, g.M.IxLit(0))
		src := g.cur.clone()
		g.copyCells(g.cur, tmp, src, p, t)
		// the copied references existed before the temporary was allocated: they cannot point into it
		for _, r := range g.L.Ranges(t) {
			if r.Count > 8 {
				continue
			}
			for k := int64(0); k < r.Count; k++ {
				c := g.loadCell(src, g.ptrAdd(p, g.M.IxLit(r.Off+k)), r.Sort)
				switch r.Sort {
				case "Ptr":
					g.assume(app("<=", pObj(c), pre))
				case "Slice":
					g.assume(app("<=", pObj(app("sl.ptr", c)), pre))
				}
			}
		}
		return tmp
	}
	return g.loadCell(g.cur, p, g.L.CellSort(t))
}

func (g *Gen) storeVal(p string, t types.Type, v string) {
	if isComposite(t) {
		src := g.cur.clone()
		g.copyCells(g.cur, p, src, v, t)
		return
	}
	g.storeCell(g.cur, p, g.L.CellSort(t), v)
}

func (g *Gen) nonNil(p string) string { return sNot(sEq(pObj(p), "0")) }

// checkWrite emits the frame obligation for a write to the cells [p, p+n).
func (g *Gen) checkWrite(p string, n int64, pos token.Pos) {
	fresh := app(">", pObj(p), "alloc@0")
	if !g.assignAll {
		alts := []string{fresh}
		for _, r := range g.fnAssigns {
			hi := g.ptrAdd(p, g.M.IxLit(n-1))
			alts = append(alts, sAnd(g.inRegion(p, r), g.inRegion(hi, r)))
		}
		g.oblige("frame", "", pos, sOr(alts...))
	}
	for _, l := range g.activeLoops() {
		if l.Checked {
			alts := []string{app(">", pObj(p), l.HeadSt.Alloc)}
			for _, r := range l.Regions {
				hi := g.ptrAdd(p, g.M.IxLit(n-1))
				alts = append(alts, sAnd(g.inRegion(p, r), g.inRegion(hi, r)))
			}
			g.oblige("loop-frame", fmt.Sprintf("loop%d", l.Ordinal), pos, sOr(alts...))
		}
	}
}

func (g *Gen) checkRegionWrite(r Region, pos token.Pos, what string) {
	// a region at the nil object contains no cell (a real write through nil is caught by the nil/valid checks)
	fresh := sOr(app(">", r.Obj, "alloc@0"), sEq(r.Obj, "0"))
	if r.TypeID != "" {
		fresh = "false"
	}
	if !g.assignAll {
		alts := []string{fresh}
		for _, fr := range g.fnAssigns {
			alts = append(alts, g.regionSub(r, fr))
		}
		g.oblige("frame", "", pos, sOr(alts...))
	}
	for _, l := range g.activeLoops() {
		if l.Checked {
			alts := []string{app(">", r.Obj, l.HeadSt.Alloc), sEq(r.Obj, "0")}
			if r.TypeID != "" {
				alts = nil
			}
			for _, lr := range l.Regions {
				alts = append(alts, g.regionSub(r, lr))
			}
			g.oblige("loop-frame", fmt.Sprintf("loop%d", l.Ordinal), pos, sOr(alts...))
		}
	}
}

func (g *Gen) instr(in ssa.Instruction) {
	switch x := in.(type) {
	case *ssa.DebugRef:
		return
	case *ssa.Alloc:
		et, _ := deref(x.Type())
		o := g.newObject(g.cur)
		g.zeroObject(g.cur, o, et)
		if g.isHeapType(et) {
			g.assume(sEq(app("objtype", o), fmt.Sprint(g.typeID(et))))
		} else {
			g.assume(sEq(app("objtype", o), "0"))
		}
		g.defineVal(x, g.mkptr(o, g.M.IxLit(0)))
	case *ssa.BinOp:
		a, b := g.val(x.X), g.val(x.Y)
		if x.Op == token.QUO || x.Op == token.REM {
			if isInteger(x.Type()) {
				zero := g.M.IntLit(bigZero, x.Y.Type())
				g.oblige("div0", "", x.Pos(), sNot(sEq(b, zero)))
			}
		}
		if (x.Op == token.SHL || x.Op == token.SHR) && isInteger(x.Y.Type()) {
			if _, signed := intBits(x.Y.Type().Underlying().(*types.Basic)); signed {
				if _, isConst := x.Y.(*ssa.Const); !isConst {
					g.oblige("shift", "", x.Pos(), g.cmp(">=", b, g.M.IntLit(bigZero, x.Y.Type()), x.Y.Type()))
				}
			}
		}
		g.defineVal(x, g.binOpTerm(x, a, b))
	case *ssa.UnOp:
		if x.Op == token.MUL {
			p := g.val(x.X)
			g.oblige("nil", "", x.Pos(), g.nonNil(p))
			g.lockCheck(x.X, false, x.Pos())
			et, _ := deref(x.X.Type())
			v := g.loadVal(p, et)
			g.defineVal(x, v)
			g.assumePC(g.wellFormed(g.valName(x), et, g.cur.Alloc))
			return
		}
		if x.Op == token.ARROW {
			g.unsupported("channel receive")
		}
		g.defineVal(x, g.unOpTerm(x, g.val(x.X)))
	case *ssa.Store:
		p := g.val(x.Addr)
		g.oblige("nil", "", x.Pos(), g.nonNil(p))
		g.lockCheck(x.Addr, true, x.Pos())
		g.checkWrite(p, g.L.Size(x.Val.Type()), x.Pos())
		g.storeVal(p, x.Val.Type(), g.val(x.Val))
	case *ssa.FieldAddr:
		p := g.val(x.X)
		g.oblige("nil", "", x.Pos(), g.nonNil(p))
		st, _ := deref(x.X.Type())
		g.defineVal(x, g.ptrAdd(p, g.M.IxLit(g.L.FieldOff(st, x.Field))))
	case *ssa.Field:
		// x.X is a struct value = pointer to a temp object
		p := g.val(x.X)
		ft := x.X.Type().Underlying().(*types.Struct).Field(x.Field).Type()
		g.defineVal(x, g.loadVal(g.ptrAdd(p, g.M.IxLit(g.L.FieldOff(x.X.Type(), x.Field))), ft))
	case *ssa.IndexAddr:
		idx := g.ixOf(x.Index)
		switch xt := x.X.Type().Underlying().(type) {
		case *types.Slice:
			s := g.val(x.X)
			g.oblige("bounds", "", x.Pos(), sAnd(g.M.ixLe(g.M.IxLit(0), idx), g.M.ixLt(idx, app("sl.len", s))))
			g.defineVal(x, g.ptrAdd(app("sl.ptr", s), g.M.ixMulC(idx, g.L.Size(xt.Elem()))))
		case *types.Pointer:
			p := g.val(x.X)
			at := xt.Elem().Underlying().(*types.Array)
			g.oblige("nil", "", x.Pos(), g.nonNil(p))
			g.oblige("bounds", "", x.Pos(), sAnd(g.M.ixLe(g.M.IxLit(0), idx), g.M.ixLt(idx, g.M.IxLit(at.Len()))))
			g.defineVal(x, g.ptrAdd(p, g.M.ixMulC(idx, g.L.Size(at.Elem()))))
		default:
			g.unsupported("IndexAddr on %v", x.X.Type())
		}
	case *ssa.Index:
		idx := g.ixOf(x.Index)
		switch xt := x.X.Type().Underlying().(type) {
		case *types.Array:
			p := g.val(x.X)
			g.oblige("bounds", "", x.Pos(), sAnd(g.M.ixLe(g.M.IxLit(0), idx), g.M.ixLt(idx, g.M.IxLit(xt.Len()))))
			g.defineVal(x, g.loadVal(g.ptrAdd(p, g.M.ixMulC(idx, g.L.Size(xt.Elem()))), xt.Elem()))
		case *types.Basic: // string
			s := g.val(x.X)
			g.oblige("bounds", "", x.Pos(), sAnd(g.M.ixLe(g.M.IxLit(0), idx), g.M.ixLt(idx, app("slen", s))))
			g.defineVal(x, g.byteOfIX(app("sat", s, idx)))
		default:
			g.unsupported("Index on %v", x.X.Type())
		}
	case *ssa.Slice:
		g.sliceInstr(x)
	case *ssa.MakeSlice:
		ln, cp := g.ixOf(x.Len), g.ixOf(x.Cap)
		g.oblige("makeslice", "", x.Pos(), sAnd(g.M.ixLe(g.M.IxLit(0), ln), g.M.ixLe(ln, cp)))
		et := x.Type().Underlying().(*types.Slice).Elem()
		o := g.newObject(g.cur)
		for _, srt := range g.sortsOfType(et) {
			g.zeroSort(g.cur, o, srt)
		}
		g.assume(sEq(app("objsize", o), g.M.ixMulC(cp, g.L.Size(et))))
		g.defineVal(x, app("mksl", g.mkptr(o, g.M.IxLit(0)), ln, cp))
	case *ssa.MakeMap:
		mt := x.Type().Underlying().(*types.Map)
		ks, vs := g.L.CellSort(mt.Key()), g.L.CellSort(mt.Elem())
		o := g.newObject(g.cur)
		dom := g.mapDom(g.cur, ks)
		g.setRawHeap(g.cur, g.mapDomName(ks), app("store", dom, o, fmt.Sprintf("((as const (Array %s Bool)) false)", ks)))
		g.mapVal(g.cur, ks, vs)
		card := g.mapCard(g.cur)
		g.setRawHeap(g.cur, "M_card", app("store", card, o, "0"))
		if vs == "Slice" && !g.M.BV {
			g.setRawHeap(g.cur, "M_vlen", app("store", g.rawHeap(g.cur, "M_vlen", "(Array Int Int)"), o, "0"))
		}
		g.defineVal(x, g.mkptr(o, g.M.IxLit(0)))
	case *ssa.Lookup:
		g.lookup(x)
	case *ssa.MapUpdate:
		g.mapUpdate(x)
	case *ssa.Range:
		g.rangeInstr(x)
	case *ssa.Next:
		g.nextInstr(x)
	case *ssa.Extract:
		tv, ok := g.tupleVals[x.Tuple]
		if !ok {
			g.unsupported("extract from unknown tuple %s", x.Tuple.Name())
		}
		g.defineVal(x, tv[x.Index])
	case *ssa.Phi:
		panic("phi")
	case *ssa.Convert:
		g.convert(x)
	case *ssa.ChangeType:
		g.defineVal(x, g.val(x.X))
	case *ssa.ChangeInterface:
		g.defineVal(x, g.val(x.X))
	case *ssa.MakeInterface:
		t := x.X.Type()
		id := fmt.Sprint(g.typeID(t))
		if g.sortOf(t) == "Ptr" && !isComposite(t) {
			g.defineVal(x, app("mkif", id, g.val(x.X)))
		} else {
			o := g.newObject(g.cur)
			box := g.mkptr(o, g.M.IxLit(0))
			g.storeVal(box, t, g.val(x.X))
			g.defineVal(x, app("mkif", id, box))
		}
	case *ssa.TypeAssert:
		g.typeAssert(x)
	case *ssa.MakeClosure:
		id := g.freshConst("closure", "Int")
		g.defineVal(x, id)
	case *ssa.Call:
		g.call(x, &x.Call, x)
	case *ssa.Defer:
		g.defers = append(g.defers, x)
		g.deferPC[x] = g.curPC
	case *ssa.RunDefers:
		g.runDefers(x)
	case *ssa.If:
		c := g.val(x.Cond)
		b := x.Block()
		g.setEdge(b, b.Succs[0], sAnd(g.curPC, c))
		g.setEdge(b, b.Succs[1], sAnd(g.curPC, sNot(c)))
	case *ssa.Jump:
		b := x.Block()
		g.setEdge(b, b.Succs[0], g.curPC)
	case *ssa.Return:
		g.ret(x)
	case *ssa.Panic:
		g.panicInstr(x)
	case *ssa.SliceToArrayPointer:
		s := g.val(x.X)
		at := x.Type().Underlying().(*types.Pointer).Elem().Underlying().(*types.Array)
		g.oblige("bounds", "", x.Pos(), g.M.ixLe(g.M.IxLit(at.Len()), app("sl.len", s)))
		g.defineVal(x, app("sl.ptr", s))
	default:
		g.unsupported("instruction %T", in)
	}
}

func (g *Gen) setEdge(from, to *ssa.BasicBlock, c string) {
	k := [2]int{from.Index, to.Index}
	if old, ok := g.edge[k]; ok {
		c = sOr(old, c)
	}
	g.edge[k] = c
}

// ixOf converts an integer SSA value to the index sort (Go int semantics).
func (g *Gen) ixOf(v ssa.Value) string {
	if v == nil {
		return ""
	}
	s := g.val(v)
	if !g.M.BV {
		return s
	}
	return g.convertInt(s, v.Type(), typInt)
}

func (g *Gen) byteOfIX(s string) string {
	if g.M.BV {
		return app("(_ extract 7 0)", s)
	}
	return s
}

func (g *Gen) sliceInstr(x *ssa.Slice) {
	lo := g.M.IxLit(0)
	if x.Low != nil {
		lo = g.ixOf(x.Low)
	}
	var ptr, ln, cp string
	var es int64 = 1
	isStr := false
	switch xt := x.X.Type().Underlying().(type) {
	case *types.Slice:
		s := g.val(x.X)
		ptr, ln, cp = app("sl.ptr", s), app("sl.len", s), app("sl.cap", s)
		es = g.L.Size(xt.Elem())
	case *types.Pointer:
		p := g.val(x.X)
		at := xt.Elem().Underlying().(*types.Array)
		g.oblige("nil", "", x.Pos(), g.nonNil(p))
		ptr, ln, cp = p, g.M.IxLit(at.Len()), g.M.IxLit(at.Len())
		es = g.L.Size(at.Elem())
	case *types.Basic:
		isStr = true
		s := g.val(x.X)
		ln = app("slen", s)
		cp = ln
	}
	hi := ln
	if x.High != nil {
		hi = g.ixOf(x.High)
	}
	limit := cp
	if isStr {
		limit = ln
	}
	max := ""
	if x.Max != nil {
		max = g.ixOf(x.Max)
		g.oblige("bounds", "", x.Pos(), sAnd(g.M.ixLe(g.M.IxLit(0), lo), g.M.ixLe(lo, hi), g.M.ixLe(hi, max), g.M.ixLe(max, limit)))
	} else {
		g.oblige("bounds", "", x.Pos(), sAnd(g.M.ixLe(g.M.IxLit(0), lo), g.M.ixLe(lo, hi), g.M.ixLe(hi, limit)))
	}
	if isStr {
		r := g.declareVal(x)
		g.assumePC(sEq(app("slen", r), g.M.ixSub(hi, lo)))
		return
	}
	newCap := g.M.ixSub(cp, lo)
	if max != "" {
		newCap = g.M.ixSub(max, lo)
	}
	g.defineVal(x, app("mksl", g.ptrAdd(ptr, g.M.ixMulC(lo, es)), g.M.ixSub(hi, lo), newCap))
}

func (g *Gen) convert(x *ssa.Convert) {
	ft, tt := x.X.Type(), x.Type()
	fu, tu := ft.Underlying(), tt.Underlying()
	if isInteger(ft) && isInteger(tt) {
		g.defineVal(x, g.convertInt(g.val(x.X), ft, tt))
		return
	}
	_, fptr := fu.(*types.Pointer)
	_, tptr := tu.(*types.Pointer)
	fb, _ := fu.(*types.Basic)
	tb, _ := tu.(*types.Basic)
	fUnsafe := fb != nil && fb.Kind() == types.UnsafePointer
	tUnsafe := tb != nil && tb.Kind() == types.UnsafePointer
	if (fptr || fUnsafe) && (tptr || tUnsafe) {
		g.defineVal(x, g.val(x.X))
		return
	}
	// string <-> []byte: fresh object with unconstrained content of the right length
	if fb != nil && fb.Info()&types.IsString != 0 {
		if _, ok := tu.(*types.Slice); ok {
			o := g.newObject(g.cur)
			n := app("slen", g.val(x.X))
			g.assume(sEq(app("objsize", o), n))
			g.defineVal(x, app("mksl", g.mkptr(o, g.M.IxLit(0)), n, n))
			if !g.M.BV {
				// the bytes of the new slice are those of the string
				g.assumePC(sEq(app("seqid", g.heapTerm(g.cur, "Int"), g.valName(x)), app("seqOfStr", g.val(x.X))))
			}
			return
		}
	}
	if tb != nil && tb.Info()&types.IsString != 0 {
		if _, ok := fu.(*types.Slice); ok && !g.M.BV {
			// string(b): a function of the byte sequence (two conversions of the same bytes give the same string)
			g.defineVal(x, app("strOfSeq", app("seqid", g.heapTerm(g.cur, "Int"), g.val(x.X))))
			g.assumePC(sEq(app("slen", g.valName(x)), app("sl.len", g.val(x.X))))
			return
		}
		r := g.declareVal(x)
		if st, ok := fu.(*types.Slice); ok {
			_ = st
			g.assumePC(sEq(app("slen", r), app("sl.len", g.val(x.X))))
		} else {
			g.assumePC(g.M.ixLe(g.M.IxLit(0), app("slen", r)))
		}
		return
	}
	g.unsupported("convert %v -> %v", ft, tt)
}

func (g *Gen) typeAssert(x *ssa.TypeAssert) {
	v := g.val(x.X)
	dyn := app("if.dyn", v)
	var ok string
	at := x.AssertedType
	if _, isIface := at.Underlying().(*types.Interface); isIface {
		ok = app("impl_"+g.ifaceName(at), dyn)
	} else {
		ok = sEq(dyn, fmt.Sprint(g.typeID(at)))
	}
	var val string
	if _, isIface := at.Underlying().(*types.Interface); isIface {
		val = v
	} else if g.sortOf(at) == "Ptr" && !isComposite(at) {
		val = app("if.val", v)
	} else {
		val = g.loadVal(app("if.val", v), at)
	}
	if x.CommaOk {
		okc := g.freshConst("ok", "Bool")
		g.assume(sEq(okc, ok))
		zero := ""
		if isComposite(at) {
			zero = g.zeroTemp(at)
		} else {
			zero = g.L.Zero(g.sortOf(at))
		}
		vc := g.freshConst("ta", g.sortOf(at))
		g.assume(sEq(vc, sIte(okc, val, zero)))
		g.tupleVals[x] = []string{vc, okc}
		return
	}
	g.oblige("typeassert", "", x.Pos(), ok)
	g.defineVal(x, val)
}

func (g *Gen) panicInstr(x *ssa.Panic) {
	if len(g.spec.PanicsIff) > 0 {
		var cs []string
		for _, c := range g.spec.PanicsIff {
			s, err := g.specEnv.EvalBool(c.Expr)
			if err != nil {
				specFail("panics-iff: %v", err)
			}
			cs = append(cs, s)
		}
		g.oblige("panic", "documented", x.Pos(), sOr(cs...))
		return
	}
	g.oblige("panic", "", x.Pos(), "false")
}

// returnOrdinal numbers the return statements of the function in source order (1-based), so that the ordinal of a
// return does not depend on the order in which the SSA builder happens to emit the blocks.
func (g *Gen) returnOrdinal(x *ssa.Return) int {
	if g.retOrd == nil {
		var rets []*ssa.Return
		for _, b := range g.fn.Blocks {
			for _, in := range b.Instrs {
				if r, ok := in.(*ssa.Return); ok {
					rets = append(rets, r)
				}
			}
		}
		sort.SliceStable(rets, func(i, j int) bool {
			if rets[i].Pos() != rets[j].Pos() {
				return rets[i].Pos() < rets[j].Pos()
			}
			return rets[i].Block().Index < rets[j].Block().Index
		})
		g.retOrd = map[*ssa.Return]int{}
		for i, r := range rets {
			g.retOrd[r] = i + 1
		}
	}
	return g.retOrd[x]
}

func (g *Gen) ret(x *ssa.Return) {
	if len(g.inlStack) > 0 {
		f := g.inlStack[len(g.inlStack)-1]
		var rs []string
		for _, r := range x.Results {
			rs = append(rs, g.val(r))
		}
		f.rets = append(f.rets, inlRet{pc: g.curPC, st: g.cur, results: rs})
		return
	}
	// vacuity guard: every return must be reachable under all the facts collected so far
	g.nret++
	ord := g.returnOrdinal(x)
	if os.Getenv("VCHECK_RETMAP") != "" {
		fmt.Fprintf(os.Stderr, "RETMAP %s %d %d\n", g.key, g.nret, ord)
	}
	g.obls = append(g.obls, &Obl{Name: fmt.Sprintf("%s:canary:return%d", g.key, ord), Kind: "canary", Func: g.key, Prefix: len(g.cmds), Goal: sNot(g.curPC), Canary: true, ExpectDead: g.spec.DeadReturns[ord], Pos: g.posOf(x.Pos())})
	env := g.baseEnv()
	env.st = g.cur
	env.old = g.entry
	res := g.fn.Signature.Results()
	for i, r := range x.Results {
		v := SVal{S: g.val(r), T: r.Type(), Sort: g.sortOf(r.Type())}
		env.vars[fmt.Sprintf("result%d", i)] = v
		if i == 0 {
			env.vars["result"] = v
		}
		if n := res.At(i).Name(); n != "" && n != "_" {
			env.vars[n] = v
		}
	}
	for _, c := range g.spec.PanicsIff {
		s, err := g.specEnv.EvalBool(c.Expr)
		if err != nil {
			specFail("panics-iff: %v", err)
		}
		g.oblige("panic", "must-panic", x.Pos(), sNot(s))
	}
	for _, c := range g.spec.Ensures {
		if c.Slow && Tier == "quick" {
			continue
		}
		s, err := env.EvalBool(c.Expr)
		if err != nil {
			specFail("%s: ensures %s: %v", c.Pos, c.Src, err)
		}
		g.oblige("ensures", labelOr(c.Label, c.Src), x.Pos(), s)
	}
}


// activeLoops: the loops with a checked frame that contain the current program point.
func (g *Gen) activeLoops() []*Loop {
	if g.isC {
		return g.cLoopStack
	}
	var out []*Loop
	for _, l := range g.loops {
		if l.Blocks[g.curBlock] {
			out = append(out, l)
		}
	}
	return out
}

// guardOf: addr is the address of a field declared `guarded T.f by l` or `immutable T.f`; returns the base pointer
// value of the T, the lock field name ("" for immutable) and true.
func (g *Gen) guardOf(addr ssa.Value) (ssa.Value, string, string, bool) {
	fa, ok := addr.(*ssa.FieldAddr)
	if !ok || g.DB.Guards == nil {
		return nil, "", "", false
	}
	st, _ := deref(fa.X.Type())
	n, ok := types.Unalias(st).(*types.Named)
	if !ok || n.Obj().Pkg() == nil {
		return nil, "", "", false
	}
	u := n.Underlying().(*types.Struct)
	key := ShortName(n.Obj().Pkg().Path()) + "." + n.Obj().Name() + "." + u.Field(fa.Field).Name()
	l, ok := g.DB.Guards[key]
	return fa.X, l, key, ok
}

// lockCheck: lock discipline of `guarded` / `immutable` fields. A write needs the write lock (mode 2), a read the read
// or the write lock (mode >= 1), unless the object was allocated by this very call (not yet shared); an immutable
// field is only written in an object allocated by this call. The lock's ghost `mode` is what THIS caller holds.
func (g *Gen) lockCheck(addr ssa.Value, write bool, pos token.Pos) {
	base, l, key, ok := g.guardOf(addr)
	if !ok {
		return
	}
	g.lockOblige(base, l, key, write, pos)
}

func (g *Gen) lockOblige(base ssa.Value, l, key string, write bool, pos token.Pos) {
	if l == "" && !write {
		return
	}
	src := "fresh(b__)"
	if l != "" {
		if write {
			src = "fresh(b__) || b__." + l + ".mode == 2"
		} else {
			src = "fresh(b__) || b__." + l + ".mode >= 1"
		}
	}
	e, err := parseSpecExpr(src)
	if err != nil {
		specFail("lock discipline expression: %v", err)
	}
	env := &SpecEnv{g: g, vars: map[string]SVal{"b__": {S: g.val(base), T: base.Type(), Sort: "Ptr"}}, st: g.cur, old: g.entry, pkg: g.fn.Pkg.Pkg, alloc0: g.entry.Alloc}
	t, err := env.EvalBool(e)
	if err != nil {
		specFail("lock discipline of %s: %v", key, err)
	}
	what := "read"
	if write {
		what = "write"
	}
	g.oblige("lock", what+":"+key, pos, t)
}

// mapGuard: the map operand of a map operation was loaded from a guarded field: the operation itself (not only the
// load of the map header) needs the lock.
func (g *Gen) mapGuard(m ssa.Value, write bool, pos token.Pos) {
	u, ok := m.(*ssa.UnOp)
	if !ok || u.Op != token.MUL {
		return
	}
	base, l, key, ok := g.guardOf(u.X)
	if !ok || l == "" {
		return
	}
	g.lockOblige(base, l, key, write, pos)
}
