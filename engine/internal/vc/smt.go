package vc

import (
	"fmt"
	"go/types"
	"math/big"
	"strings"
)

var selectorOf = map[string][2]interface{}{
	"p.obj": {"mkptr", 0}, "p.off": {"mkptr", 1},
	"sl.ptr": {"mksl", 0}, "sl.len": {"mksl", 1}, "sl.cap": {"mksl", 2},
	"if.dyn": {"mkif", 0}, "if.val": {"mkif", 1},
}

// topArgs splits "(f a b c)" into f and its top-level arguments.
func topArgs(t string) (string, []string) {
	if len(t) < 2 || t[0] != '(' {
		return t, nil
	}
	body := t[1 : len(t)-1]
	var parts []string
	depth := 0
	start := 0
	for i := 0; i < len(body); i++ {
		switch body[i] {
		case '(':
			depth++
		case ')':
			depth--
		case ' ':
			if depth == 0 {
				if i > start {
					parts = append(parts, body[start:i])
				}
				start = i + 1
			}
		}
	}
	if start < len(body) {
		parts = append(parts, body[start:])
	}
	if len(parts) == 0 {
		return t, nil
	}
	return parts[0], parts[1:]
}

func app(op string, args ...string) string {
	if len(args) == 1 {
		if sel, ok := selectorOf[op]; ok {
			ctor := sel[0].(string)
			if strings.HasPrefix(args[0], "("+ctor+" ") {
				if f, as := topArgs(args[0]); f == ctor && len(as) > sel[1].(int) {
					return as[sel[1].(int)]
				}
			}
		}
	}
	switch op {
	case "bvsub", "-":
		if len(args) == 2 && (args[1] == "(_ bv0 64)" || args[1] == "0") {
			return args[0]
		}
	case "bvadd", "+":
		if len(args) == 2 {
			if args[1] == "(_ bv0 64)" || args[1] == "0" {
				return args[0]
			}
			if args[0] == "(_ bv0 64)" || args[0] == "0" {
				return args[1]
			}
		}
	case "bvmul", "*":
		if len(args) == 2 && (args[1] == "(_ bv1 64)" || args[1] == "1") {
			return args[0]
		}
	}
	return "(" + op + " " + strings.Join(args, " ") + ")"
}

func sAnd(xs ...string) string {
	var ys []string
	for _, x := range xs {
		if x == "true" || x == "" {
			continue
		}
		if x == "false" {
			return "false"
		}
		ys = append(ys, x)
	}
	switch len(ys) {
	case 0:
		return "true"
	case 1:
		return ys[0]
	}
	return app("and", ys...)
}

func sOr(xs ...string) string {
	var ys []string
	for _, x := range xs {
		if x == "false" || x == "" {
			continue
		}
		if x == "true" {
			return "true"
		}
		ys = append(ys, x)
	}
	switch len(ys) {
	case 0:
		return "false"
	case 1:
		return ys[0]
	}
	return app("or", ys...)
}

func sNot(x string) string {
	switch x {
	case "true":
		return "false"
	case "false":
		return "true"
	}
	if strings.HasPrefix(x, "(not ") {
		return x[5 : len(x)-1]
	}
	return app("not", x)
}

func sImp(a, b string) string {
	if a == "true" {
		return b
	}
	if a == "false" || b == "true" {
		return "true"
	}
	return app("=>", a, b)
}

func sIte(c, a, b string) string {
	if c == "true" {
		return a
	}
	if c == "false" {
		return b
	}
	if a == b {
		return a
	}
	return app("ite", c, a, b)
}

func sEq(a, b string) string {
	if a == b {
		return "true"
	}
	return app("=", a, b)
}

// Mode selects the integer semantics of one function's verification conditions.
type Mode struct{ BV bool }

func (m Mode) String() string {
	if m.BV {
		return "bv"
	}
	return "int"
}

// IX is the sort of indices, lengths and cell offsets.
func (m Mode) IX() string {
	if m.BV {
		return "(_ BitVec 64)"
	}
	return "Int"
}

func intBits(b *types.Basic) (bits int, signed bool) {
	switch b.Kind() {
	case types.Int8:
		return 8, true
	case types.Int16:
		return 16, true
	case types.Int32:
		return 32, true
	case types.Int64, types.Int, types.UntypedInt, types.UntypedRune:
		return 64, true
	case types.Uint8:
		return 8, false
	case types.Uint16:
		return 16, false
	case types.Uint32:
		return 32, false
	case types.Uint64, types.Uint, types.Uintptr:
		return 64, false
	}
	return 0, false
}

func isInteger(t types.Type) bool {
	b, ok := t.Underlying().(*types.Basic)
	return ok && b.Info()&types.IsInteger != 0
}

func bvSort(w int) string { return fmt.Sprintf("(_ BitVec %d)", w) }

// IntLit renders the integer n as a literal of Go type t (IX when t is nil).
func (m Mode) IntLit(n *big.Int, t types.Type) string {
	if !m.BV {
		if n.Sign() < 0 {
			return "(- " + new(big.Int).Neg(n).String() + ")"
		}
		return n.String()
	}
	w := 64
	if t != nil {
		if b, ok := t.Underlying().(*types.Basic); ok {
			if bw, _ := intBits(b); bw > 0 {
				w = bw
			}
		}
	}
	mod := new(big.Int).Lsh(big.NewInt(1), uint(w))
	v := new(big.Int).Mod(n, mod)
	return fmt.Sprintf("(_ bv%s %d)", v.String(), w)
}

func (m Mode) IxLit(n int64) string { return m.IntLit(big.NewInt(n), nil) }

// index arithmetic helpers (on IX)
func (m Mode) ixAdd(a, b string) string {
	// a + (j - a) = j  (change of variable in quantifiers)
	sub := "(- "
	if m.BV {
		sub = "(bvsub "
	}
	if strings.HasPrefix(b, sub) && strings.HasSuffix(b, " "+a+")") {
		if f, as := topArgs(b); len(as) == 2 && as[1] == a && (f == "-" || f == "bvsub") {
			return as[0]
		}
	}
	if m.BV {
		if b == m.IxLit(0) {
			return a
		}
		if a == m.IxLit(0) {
			return b
		}
		return app("bvadd", a, b)
	}
	if b == "0" {
		return a
	}
	if a == "0" {
		return b
	}
	return app("+", a, b)
}
func (m Mode) ixSub(a, b string) string {
	if m.BV {
		return app("bvsub", a, b)
	}
	if b == "0" {
		return a
	}
	return app("-", a, b)
}
func (m Mode) ixMulC(a string, c int64) string {
	if c == 1 {
		return a
	}
	if m.BV {
		return app("bvmul", a, m.IxLit(c))
	}
	if isNumLit(a) {
		n, _ := new(big.Int).SetString(a, 10)
		return n.Mul(n, big.NewInt(c)).String()
	}
	// eo(c, i) = c*i, kept as an uninterpreted application so that quantifiers over the elements of
	// a slice of multi-cell values have a usable trigger
	return app("eo", fmt.Sprint(c), a)
}

// signed comparisons on IX (lengths and indices are Go ints)
func (m Mode) ixLe(a, b string) string {
	if m.BV {
		return app("bvsle", a, b)
	}
	return app("<=", a, b)
}
func (m Mode) ixLt(a, b string) string {
	if m.BV {
		return app("bvslt", a, b)
	}
	return app("<", a, b)
}

func pow2(w int) *big.Int { return new(big.Int).Lsh(big.NewInt(1), uint(w)) }
