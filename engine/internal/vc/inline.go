package vc

import (
	"fmt"
	"go/token"
	"strings"

	"golang.org/x/tools/go/ssa"
)

// Inlining of callees that have no contract.
//
// On the unchanged tree every function called from a function under contract has a contract of its own, so nothing here
// runs. After a change to the code (a helper extracted from a verified function, or a call to an existing small helper
// that nobody had specified), refusing the call ("uncontracted: frame cannot be checked") would raise an alarm on code
// that may be perfectly fine. Instead the body of such a callee is verified in place: its instructions are translated
// in the caller's state under the caller's path condition, its obligations (bounds, nil, frame against the CALLER's
// assigns clause, callee preconditions) become obligations of the caller, and its return paths are merged.
// Conditions: the callee is a function of the module with a body, without loops, defers, goroutines, selects, free
// variables; at most inlineMaxDepth nested; not recursive.

const inlineMaxDepth = 3
const inlineMaxInstrs = 400

type inlRet struct {
	pc      string
	st      *State
	results []string
}

type inlFrame struct {
	fn      *ssa.Function
	entryPC string
	entrySt *State
	rets    []inlRet
}

// inModule reports whether fn belongs to the module under verification.
func (g *Gen) inModule(fn *ssa.Function) bool {
	if fn == nil || fn.Pkg == nil || fn.Pkg.Pkg == nil || g.fn.Pkg == nil {
		return false
	}
	root := g.fn.Pkg.Pkg.Path()
	if i := strings.Index(root, "/crypto"); i >= 0 {
		root = root[:i+len("/crypto")]
	}
	return strings.HasPrefix(fn.Pkg.Pkg.Path(), root)
}

func (g *Gen) inlinable(fn *ssa.Function) bool {
	if fn == nil || len(fn.Blocks) == 0 || len(fn.FreeVars) > 0 || !g.inModule(fn) {
		return false
	}
	if strings.HasPrefix(fn.Name(), "_Cfunc_") || strings.HasPrefix(fn.Name(), "_cgo") || strings.HasPrefix(fn.Name(), "_Cgo") {
		return false
	}
	if len(g.inlStack) >= inlineMaxDepth {
		return false
	}
	for _, f := range g.inlStack {
		if f.fn == fn {
			return false
		}
	}
	if fn == g.rootFn() {
		return false
	}
	n := 0
	// no back edge: every successor has a larger position in a DFS order => check with colours
	colour := map[*ssa.BasicBlock]int{}
	var cyclic bool
	var dfs func(b *ssa.BasicBlock)
	dfs = func(b *ssa.BasicBlock) {
		colour[b] = 1
		for _, s := range b.Succs {
			if colour[s] == 1 {
				cyclic = true
			} else if colour[s] == 0 {
				dfs(s)
			}
		}
		colour[b] = 2
	}
	dfs(fn.Blocks[0])
	if cyclic {
		return false
	}
	for _, b := range fn.Blocks {
		for _, in := range b.Instrs {
			n++
			switch in.(type) {
			case *ssa.Defer, *ssa.RunDefers, *ssa.Go, *ssa.Select, *ssa.MakeClosure:
				return false
			}
		}
	}
	return n <= inlineMaxInstrs
}

func (g *Gen) rootFn() *ssa.Function {
	if len(g.inlStack) > 0 {
		return g.inlRoot
	}
	return g.fn
}

// inlineCall translates the body of ce.fn in place and returns the result terms.
func (g *Gen) inlineCall(ce *callee, pos token.Pos) []string {
	fn := ce.fn
	g.Warnings = append(g.Warnings, "callee without a contract verified in place (inlined): "+ce.key)
	if len(g.inlStack) == 0 {
		g.inlRoot = g.fn
	}
	g.inlCount++
	frame := &inlFrame{fn: fn, entryPC: g.curPC, entrySt: g.cur}
	// save the per-function part of the generator
	sv := struct {
		fn        *ssa.Function
		spec      *FuncSpec
		pc        map[*ssa.BasicBlock]string
		outSt     map[*ssa.BasicBlock]*State
		edge      map[[2]int]string
		loops     []*Loop
		loopOf    map[*ssa.BasicBlock]*Loop
		backEdges map[[2]int]bool
		order     []*ssa.BasicBlock
		curBlock  *ssa.BasicBlock
		defers    []*ssa.Defer
		deferPC   map[*ssa.Defer]string
		nret      int
		retOrd    map[*ssa.Return]int
		nameVals  map[string][]ssa.Value
		nameAddrs map[string]ssa.Value
		prefix    string
		curPC     string
	}{g.fn, g.spec, g.pc, g.outSt, g.edge, g.loops, g.loopOf, g.backEdges, g.order, g.curBlock, g.defers, g.deferPC, g.nret, g.retOrd, g.nameVals, g.nameAddrs, g.valPrefix, g.curPC}
	args := make([]string, len(ce.args))
	for i, a := range ce.args {
		args[i] = g.val(a)
	}

	g.fn = fn
	g.spec = &FuncSpec{Key: ce.key, Mode: sv.spec.Mode, Loops: map[int]*LoopSpec{}}
	g.pc = map[*ssa.BasicBlock]string{}
	g.outSt = map[*ssa.BasicBlock]*State{}
	g.edge = map[[2]int]string{}
	g.loops, g.loopOf, g.backEdges, g.order = nil, map[*ssa.BasicBlock]*Loop{}, map[[2]int]bool{}, nil
	g.defers, g.deferPC = nil, map[*ssa.Defer]string{}
	g.nret, g.retOrd = 0, nil
	g.nameVals, g.nameAddrs = map[string][]ssa.Value{}, map[string]ssa.Value{}
	g.valPrefix = fmt.Sprintf("%si%d_", sv.prefix, g.inlCount)
	g.inlStack = append(g.inlStack, frame)

	g.findLoops()
	g.collectNames()
	if len(fn.Params) != len(args) {
		g.unsupported("inlining %s: %d parameters, %d arguments", ce.key, len(fn.Params), len(args))
	}
	for i, p := range fn.Params {
		g.defineVal(p, args[i])
	}
	for _, b := range g.order {
		g.block(b)
	}

	// restore
	g.inlStack = g.inlStack[:len(g.inlStack)-1]
	g.fn, g.spec, g.pc, g.outSt, g.edge, g.loops, g.loopOf, g.backEdges, g.order, g.curBlock = sv.fn, sv.spec, sv.pc, sv.outSt, sv.edge, sv.loops, sv.loopOf, sv.backEdges, sv.order, sv.curBlock
	g.defers, g.deferPC, g.nret, g.retOrd, g.nameVals, g.nameAddrs, g.valPrefix = sv.defers, sv.deferPC, sv.nret, sv.retOrd, sv.nameVals, sv.nameAddrs, sv.prefix
	g.curPC = sv.curPC

	if len(frame.rets) == 0 {
		// the callee never returns (it always panics): nothing after the call is reachable
		g.assumePC("false")
		var rs []string
		res := ce.sig.Results()
		for i := 0; i < res.Len(); i++ {
			rs = append(rs, g.freshConst("r_"+sanitize(shortKey(ce.key)), g.sortOf(res.At(i).Type())))
		}
		return rs
	}
	var conds []string
	var sts []*State
	for _, r := range frame.rets {
		conds = append(conds, r.pc)
		sts = append(sts, r.st)
	}
	// the panic paths of the callee are obligations of their own (assert, then assume): having entered, it returned
	g.assumePC(sOr(conds...))
	g.cur = g.mergeStates(conds, sts)
	res := ce.sig.Results()
	var out []string
	for i := 0; i < res.Len(); i++ {
		i := i
		t := g.iteChain(conds, func(k int) string { return frame.rets[k].results[i] })
		c := g.freshConst("r_"+sanitize(shortKey(ce.key)), g.sortOf(res.At(i).Type()))
		g.assume(sEq(c, t))
		out = append(out, c)
	}
	return out
}
