package vc

import (
	"fmt"
	"go/ast"
	"go/constant"
	"go/token"
	"go/types"
	"math/big"
	"sort"
	"strings"

	"golang.org/x/tools/go/ssa"
)

var bigZero = big.NewInt(0)

type callee struct {
	key      string
	spec     *FuncSpec
	sig      *types.Signature
	names    []string // parameter names, receiver first
	pkg      *types.Package
	args     []ssa.Value // receiver first
	bindings map[string]ssa.Value
	invoke   *ssa.CallCommon
	fn       *ssa.Function // static callee, if any
}

func ifaceKey(t types.Type, method string) string {
	return "(" + ShortName(t.String()) + ")." + method
}

func (g *Gen) resolveCallee(c *ssa.CallCommon) *callee {
	ce := &callee{sig: c.Signature(), pkg: g.fn.Pkg.Pkg}
	if c.IsInvoke() {
		ce.invoke = c
		ce.key = ifaceKey(c.Value.Type(), c.Method.Name())
		ce.args = append([]ssa.Value{c.Value}, c.Args...)
		if _, ok := g.DB.Funcs[ce.key]; !ok {
			// the interface that declares the method
			if recv := c.Method.Type().(*types.Signature).Recv(); recv != nil {
				k2 := ifaceKey(recv.Type(), c.Method.Name())
				if _, ok := g.DB.Funcs[k2]; ok {
					ce.key = k2
				}
			}
		}
		ce.names = []string{"self"}
		if c.Method.Pkg() != nil {
			ce.pkg = c.Method.Pkg()
		}
		ps := c.Method.Type().(*types.Signature).Params()
		for i := 0; i < ps.Len(); i++ {
			ce.names = append(ce.names, ps.At(i).Name())
		}
	} else if fn := c.StaticCallee(); fn != nil && strings.HasPrefix(fn.Name(), "_Cfunc_") {
		cname := strings.TrimPrefix(fn.Name(), "_Cfunc_")
		ce.key = "C." + cname
		ce.args = c.Args
		ce.names = g.P.CParams[cname]
		ce.pkg = fn.Pkg.Pkg
	} else if fn := c.StaticCallee(); fn != nil {
		ce.key = FuncKey(fn)
		ce.fn = fn
		if fn.Pkg != nil {
			ce.pkg = fn.Pkg.Pkg
		} else if fn.Object() != nil && fn.Object().Pkg() != nil {
			ce.pkg = fn.Object().Pkg()
		}
		ce.args = c.Args
		if len(fn.Params) == len(c.Args) {
			for _, p := range fn.Params {
				ce.names = append(ce.names, p.Name())
			}
		} else {
			if r := ce.sig.Recv(); r != nil {
				ce.names = append(ce.names, r.Name())
			}
			for i := 0; i < ce.sig.Params().Len(); i++ {
				ce.names = append(ce.names, ce.sig.Params().At(i).Name())
			}
		}
		if mc, ok := c.Value.(*ssa.MakeClosure); ok {
			ce.bindings = map[string]ssa.Value{}
			for i, fv := range fn.FreeVars {
				ce.bindings[fv.Name()] = mc.Bindings[i]
			}
		}
	} else {
		// dynamic call of a function value
		ce.args = c.Args
		for i := 0; i < ce.sig.Params().Len(); i++ {
			ce.names = append(ce.names, ce.sig.Params().At(i).Name())
		}
		switch v := c.Value.(type) {
		case *ssa.Parameter:
			ce.key = g.key + "#" + v.Name()
		default:
			ce.key = g.key + "#dynamic"
		}
	}
	ce.spec = g.DB.Funcs[ce.key]
	if ce.spec != nil {
		g.UsedSpecs[ce.key] = true
		if len(ce.spec.Params) > 0 {
			ce.names = ce.spec.Params
		}
	}
	return ce
}

// calleeEnv builds the contract environment of a call: parameters bound to argument terms.
func (g *Gen) calleeEnv(ce *callee, argTerm func(v ssa.Value) string, pre *State) *SpecEnv {
	env := &SpecEnv{g: g, vars: map[string]SVal{}, st: pre, old: pre, pkg: ce.pkg, alloc0: pre.Alloc}
	if strings.HasPrefix(ce.key, "C.") {
		// the enumerators of the C headers (VALID, INVALID, ...) are visible in the contracts of C functions
		for n, v := range g.P.CEnums {
			env.vars[n] = SVal{S: g.M.IntLit(big.NewInt(v), typInt), T: typInt, Sort: g.M.IX(), Untyped: true}
		}
	}
	if strings.Contains(ce.key, "#") {
		// callback contracts may mention the parameters of the enclosing function
		for k, v := range g.baseEnv().vars {
			env.vars[k] = v
		}
	}
	hasRecv := ce.sig.Recv() != nil
	for i, a := range ce.args {
		v := SVal{S: argTerm(a), T: a.Type(), Sort: g.sortOf(a.Type())}
		if i < len(ce.names) && ce.names[i] != "" && ce.names[i] != "_" {
			env.vars[ce.names[i]] = v
		}
		if hasRecv {
			if i == 0 {
				env.vars["self"] = v
			} else {
				env.vars[fmt.Sprintf("arg%d", i-1)] = v
			}
		} else {
			env.vars[fmt.Sprintf("arg%d", i)] = v
		}
	}
	for n, b := range ce.bindings {
		env.vars[n] = SVal{S: argTerm(b), T: b.Type(), Sort: g.sortOf(b.Type())}
	}
	return env
}

func shortKey(k string) string {
	k = strings.NewReplacer("(", "", ")", "", "*", "").Replace(k)
	if i := strings.LastIndex(k, "/"); i >= 0 {
		k = k[i+1:]
	}
	return k
}

func (g *Gen) call(in ssa.Instruction, c *ssa.CallCommon, res ssa.Value) {
	if b, ok := c.Value.(*ssa.Builtin); ok && !c.IsInvoke() {
		g.builtin(in, b, c, res)
		return
	}
	if g.errorsBuiltin(in, c, res) {
		return
	}
	ce := g.resolveCallee(c)
	var results []string
	if ce.spec == nil && ce.bindings == nil && g.inlinable(ce.fn) {
		results = g.inlineCall(ce, in.Pos())
	} else {
		results = g.applyContract(ce, in.Pos())
	}
	if res == nil {
		return
	}
	if _, isTuple := res.Type().(*types.Tuple); isTuple {
		g.tupleVals[res] = results
		return
	}
	if len(results) == 1 {
		g.defineVal(res, results[0])
	}
}

// applyContract performs a modular call: assert requires, havoc assigns, assume ensures.
func (g *Gen) applyContract(ce *callee, pos token.Pos) []string {
	pre := g.cur
	env := g.calleeEnv(ce, g.val, pre)
	post := pre.clone()
	spec := ce.spec
	name := shortKey(ce.key)
	if c := ce.args; ce.sig.Recv() != nil && len(c) > 0 {
		// method call through a nil interface / nil receiver is checked by the callee's own requires
		if g.sortOf(c[0].Type()) == "Iface" {
			g.oblige("nil", "", pos, sNot(sEq(app("if.dyn", g.val(c[0])), "0")))
		}
	}
	if spec == nil {
		g.Warnings = append(g.Warnings, "uncontracted call: "+ce.key)
		g.havocAll(post)
		if !g.assignAll {
			g.oblige("frame", "uncontracted:"+name, pos, "false")
		}
	} else {
		for _, c := range spec.Requires {
			s, err := env.EvalBool(c.Expr)
			if err != nil {
				specFail("%s: requires of %s: %v", c.Pos, ce.key, err)
			}
			g.oblige("requires", name+"."+labelOr(c.Label, c.Src), pos, s)
		}
		for _, c := range spec.PanicsIff {
			s, err := env.EvalBool(c.Expr)
			if err != nil {
				specFail("%s: panics-iff of %s: %v", c.Pos, ce.key, err)
			}
			g.oblige("requires", name+".no-panic", pos, sNot(s))
		}
		if spec.AssignsAll {
			g.havocAll(post)
			if !g.assignAll {
				g.oblige("frame", "assigns-everything:"+name, pos, "false")
			}
		}
		for _, a := range spec.Assigns {
			r, err := env.EvalRegion(a)
			if err != nil {
				specFail("assigns of %s: %s: %v", ce.key, exprString(a), err)
			}
			g.checkRegionWrite(r, pos, name)
			g.havocRegion(post, r)
		}
	}
	if spec == nil || !spec.Pure {
		a := g.freshConst("alloc", "Int")
		g.assume(app(">=", a, pre.Alloc))
		post.Alloc = a
	}
	// results
	var results []string
	rs := ce.sig.Results()
	envPost := env.with(post)
	envPost.old = pre
	nv := map[string]SVal{}
	for k, v := range env.vars {
		nv[k] = v
	}
	envPost.vars = nv
	g.cur = post
	for i := 0; i < rs.Len(); i++ {
		t := rs.At(i).Type()
		r := g.freshConst("r_"+sanitize(name), g.sortOf(t))
		g.assumePC(g.wellFormed(r, t, post.Alloc))
		results = append(results, r)
		v := SVal{S: r, T: t, Sort: g.sortOf(t)}
		nv[fmt.Sprintf("result%d", i)] = v
		if i == 0 {
			nv["result"] = v
		}
		if n := rs.At(i).Name(); n != "" && n != "_" {
			nv[n] = v
		}
	}
	if spec != nil {
		for _, c := range append(append([]Clause{}, spec.Ensures...), spec.Assumed...) {
			if c.COnly && !g.isC {
				continue
			}
			s, err := envPost.EvalBool(c.Expr)
			if err != nil {
				specFail("%s: ensures of %s: %v", c.Pos, ce.key, err)
			}
			g.assumePC(s)
		}
		if len(spec.Assumed) > 0 {
			g.Warnings = append(g.Warnings, fmt.Sprintf("assumed (unverified) ghost postcondition of %s used", ce.key))
		}
	}
	if ce.invoke != nil {
		g.dispatchRefine(ce, pre, post, results, pos)
	}
	if ce.key == "fmt.Errorf" && len(results) == 1 {
		g.errorfClasses(ce, results[0], pre)
	}
	return results
}

func blockReaches(a, b *ssa.BasicBlock) bool {
	seen := map[*ssa.BasicBlock]bool{}
	work := []*ssa.BasicBlock{a}
	for len(work) > 0 {
		c := work[len(work)-1]
		work = work[:len(work)-1]
		if c == b {
			return true
		}
		if seen[c] {
			continue
		}
		seen[c] = true
		work = append(work, c.Succs...)
	}
	return false
}

func (g *Gen) runDefers(x *ssa.RunDefers) {
	for i := len(g.defers) - 1; i >= 0; i-- {
		d := g.defers[i]
		if !d.Block().Dominates(x.Block()) && !blockReaches(d.Block(), x.Block()) {
			continue // this return is not reachable from the defer statement: it never ran
		}
		if !d.Block().Dominates(x.Block()) {
			// conditional / repeated defer: over-approximate by its frame only
			ce := g.resolveCallee(&d.Call)
			if ce.spec == nil || ce.spec.AssignsAll {
				g.havocAll(g.cur)
				continue
			}
			g.Warnings = append(g.Warnings, "conditional defer approximated by its frame: "+ce.key)
			env := g.calleeEnv(ce, g.val, g.cur)
			post := g.cur.clone()
			for _, a := range ce.spec.Assigns {
				r, err := env.EvalRegion(a)
				if err != nil {
					specFail("assigns of %s: %v", ce.key, err)
				}
				// the deferred call writes only what it was given; if the arguments are loop-variant we cannot name them
				r2 := r
				r2.Whole = true
				g.havocRegion(post, r2)
			}
			g.cur = g.mergeStates([]string{g.deferPC[d], "true"}, []*State{post, g.cur})
			continue
		}
		if b, ok := d.Call.Value.(*ssa.Builtin); ok {
			g.builtin(d, b, &d.Call, nil)
			continue
		}
		ce := g.resolveCallee(&d.Call)
		g.applyContract(ce, d.Pos())
	}
}

// ---------- builtins ----------

func (g *Gen) builtin(in ssa.Instruction, b *ssa.Builtin, c *ssa.CallCommon, res ssa.Value) {
	arg := func(i int) string { return g.val(c.Args[i]) }
	def := func(term string) {
		if res != nil {
			g.defineVal(res, term)
		}
	}
	fromIX := func(s string) string { return s }
	switch b.Name() {
	case "len":
		switch t := c.Args[0].Type().Underlying().(type) {
		case *types.Slice:
			def(fromIX(app("sl.len", arg(0))))
		case *types.Basic:
			def(fromIX(app("slen", arg(0))))
		case *types.Map:
			def(fromIX(g.cardIX(app("select", g.mapCard(g.cur), pObj(arg(0))))))
		case *types.Pointer:
			def(g.M.IxLit(t.Elem().Underlying().(*types.Array).Len()))
		case *types.Array:
			def(g.M.IxLit(t.Len()))
		default:
			g.unsupported("len of %v", t)
		}
	case "cap":
		switch t := c.Args[0].Type().Underlying().(type) {
		case *types.Slice:
			def(app("sl.cap", arg(0)))
		default:
			g.unsupported("cap of %v", t)
		}
	case "min", "max":
		a, bb := arg(0), arg(1)
		t := c.Args[0].Type()
		cnd := g.cmp("<", a, bb, t)
		if b.Name() == "min" {
			def(sIte(cnd, a, bb))
		} else {
			def(sIte(cnd, bb, a))
		}
	case "append":
		g.appendBuiltin(c, res)
	case "copy":
		g.copyBuiltin(in, c, res)
	case "delete":
		m, k := arg(0), arg(1)
		mt := c.Args[0].Type().Underlying().(*types.Map)
		ks := g.L.CellSort(mt.Key())
		dom := g.mapDom(g.cur, ks)
		card := g.mapCard(g.cur)
		was := sAnd(g.nonNil(m), app("select", app("select", dom, pObj(m)), k))
		g.setRawHeap(g.cur, g.mapDomName(ks), sIte(g.nonNil(m), app("store", dom, pObj(m), app("store", app("select", dom, pObj(m)), k, "false")), dom))
		g.setRawHeap(g.cur, "M_card", sIte(was, app("store", card, pObj(m), app("-", app("select", card, pObj(m)), "1")), card))
		if g.L.CellSort(mt.Elem()) == "Slice" && !g.M.BV {
			vl := g.rawHeap(g.cur, "M_vlen", "(Array Int Int)")
			vsrt := g.L.CellSort(mt.Elem())
			oldLen := app("sl.len", app("select", app("select", g.mapVal(g.cur, ks, vsrt), pObj(m)), k))
			g.setRawHeap(g.cur, "M_vlen", sIte(was, app("store", vl, pObj(m), app("-", app("select", vl, pObj(m)), oldLen)), vl))
		}
	case "clear":
		if st, ok := c.Args[0].Type().Underlying().(*types.Slice); ok {
			// clear(s): every element of s becomes the zero value
			d := arg(0)
			dp := app("sl.ptr", d)
			es := g.L.Size(st.Elem())
			reg := Region{Obj: pObj(dp), Lo: pOff(dp), Hi: g.M.ixAdd(pOff(dp), g.M.ixMulC(app("sl.len", d), es)), T: st.Elem()}
			g.checkRegionWrite(reg, in.Pos(), "clear")
			rs := g.L.Ranges(st.Elem())
			if es == 1 && len(rs) == 1 {
				sort := rs[0].Sort
				ht := g.heapTerm(g.cur, sort)
				dstArr := app("select", ht, pObj(dp))
				inner := g.freshConst("clr", fmt.Sprintf("(Array %s %s)", g.M.IX(), sort))
				i := "i!q"
				inRange := sAnd(g.M.ixLe(pOff(dp), i), g.M.ixLt(i, g.M.ixAdd(pOff(dp), app("sl.len", d))))
				g.assume(fmt.Sprintf("(forall ((%s %s)) (! (= (select %s %s) (ite %s %s (select %s %s))) :pattern ((select %s %s))))",
					i, g.M.IX(), inner, i, inRange, g.L.Zero(sort), dstArr, i, inner, i))
				g.setHeap(g.cur, sort, app("store", ht, pObj(dp), inner))
			} else {
				g.havocRegion(g.cur, reg)
			}
		} else {
			g.unsupported("builtin clear on a map")
		}
	case "print", "println":
	case "recover":
		def(g.L.Zero("Iface"))
	case "ssa:wrapnilchk":
		g.oblige("nil", "", in.Pos(), g.nonNil(arg(0)))
		def(arg(0))
	default:
		g.unsupported("builtin %s", b.Name())
	}
}

func (g *Gen) cardIX(s string) string {
	if g.M.BV {
		return app("(_ int2bv 64)", s)
	}
	return s
}

func (g *Gen) appendBuiltin(c *ssa.CallCommon, res ssa.Value) {
	s := g.val(c.Args[0])
	st := c.Args[0].Type().Underlying().(*types.Slice)
	es := g.L.Size(st.Elem())
	var tl string
	tIsStr := false
	if _, ok := c.Args[1].Type().Underlying().(*types.Basic); ok {
		tIsStr = true
		tl = app("slen", g.val(c.Args[1]))
	} else {
		tl = app("sl.len", g.val(c.Args[1]))
	}
	// always-copy model: the result is a fresh backing array holding s ++ t
	pre := g.cur.clone()
	o := g.newObject(g.cur)
	dst := g.mkptr(o, g.M.IxLit(0))
	n := g.M.ixAdd(app("sl.len", s), tl)
	for _, r := range g.L.Ranges(st.Elem()) {
		if es == 1 {
			g.copyRange(g.cur, dst, pre, app("sl.ptr", s), r.Sort, 0, app("sl.len", s), -1)
			if !tIsStr {
				g.copyRange(g.cur, g.ptrAdd(dst, app("sl.len", s)), g.cur.clone(), app("sl.ptr", g.val(c.Args[1])), r.Sort, 0, tl, -1)
			}
		} else {
			// multi-cell elements: contents left unconstrained
			g.Warnings = append(g.Warnings, "append of multi-cell elements: contents unconstrained")
			break
		}
	}
	cp := g.freshConst("cap", g.M.IX())
	g.assume(g.M.ixLe(n, cp))
	g.assume(sEq(app("objsize", o), g.M.ixMulC(cp, es)))
	if res != nil {
		g.defineVal(res, app("mksl", dst, n, cp))
	}
}

func (g *Gen) copyBuiltin(in ssa.Instruction, c *ssa.CallCommon, res ssa.Value) {
	d := g.val(c.Args[0])
	dt := c.Args[0].Type().Underlying().(*types.Slice)
	es := g.L.Size(dt.Elem())
	var sl string
	srcIsStr := false
	if _, ok := c.Args[1].Type().Underlying().(*types.Basic); ok {
		srcIsStr = true
		sl = app("slen", g.val(c.Args[1]))
	} else {
		sl = app("sl.len", g.val(c.Args[1]))
	}
	n := g.freshConst("ncopy", g.M.IX())
	g.assume(sEq(n, sIte(g.M.ixLt(app("sl.len", d), sl), app("sl.len", d), sl)))
	dp := app("sl.ptr", d)
	reg := Region{Obj: pObj(dp), Lo: pOff(dp), Hi: g.M.ixAdd(pOff(dp), g.M.ixMulC(n, es)), T: dt.Elem()}
	g.checkRegionWrite(reg, in.Pos(), "copy")
	if srcIsStr || es != 1 {
		g.havocRegion(g.cur, reg)
	} else {
		pre := g.cur.clone()
		for _, r := range g.L.Ranges(dt.Elem()) {
			g.copyRange(g.cur, dp, pre, app("sl.ptr", g.val(c.Args[1])), r.Sort, 0, n, -1)
		}
	}
	if res != nil {
		g.defineVal(res, n)
	}
}

// ---------- maps ----------

func (g *Gen) lookup(x *ssa.Lookup) {
	mt, isMap := x.X.Type().Underlying().(*types.Map)
	if !isMap {
		// string index
		s := g.val(x.X)
		idx := g.ixOf(x.Index)
		g.oblige("bounds", "", x.Pos(), sAnd(g.M.ixLe(g.M.IxLit(0), idx), g.M.ixLt(idx, app("slen", s))))
		g.defineVal(x, g.byteOfIX(app("sat", s, idx)))
		return
	}
	m, k := g.val(x.X), g.val(x.Index)
	g.mapGuard(x.X, false, x.Pos())
	ks, vs := g.L.CellSort(mt.Key()), g.L.CellSort(mt.Elem())
	if isComposite(mt.Elem()) {
		g.unsupported("map with composite values")
	}
	in := sAnd(g.nonNil(m), app("select", app("select", g.mapDom(g.cur, ks), pObj(m)), k))
	v := sIte(in, app("select", app("select", g.mapVal(g.cur, ks, vs), pObj(m)), k), g.L.Zero(vs))
	if x.CommaOk {
		okc := g.freshConst("ok", "Bool")
		g.assume(sEq(okc, in))
		vc := g.freshConst("mv", vs)
		g.assume(sEq(vc, v))
		g.assumePC(g.wellFormed(vc, mt.Elem(), g.cur.Alloc))
		g.tupleVals[x] = []string{vc, okc}
		return
	}
	g.defineVal(x, v)
	g.assumePC(g.wellFormed(g.valName(x), mt.Elem(), g.cur.Alloc))
}

func (g *Gen) mapUpdate(x *ssa.MapUpdate) {
	mt := x.Map.Type().Underlying().(*types.Map)
	m, k, v := g.val(x.Map), g.val(x.Key), g.val(x.Value)
	ks, vs := g.L.CellSort(mt.Key()), g.L.CellSort(mt.Elem())
	g.oblige("nilmap", "", x.Pos(), g.nonNil(m))
	g.mapGuard(x.Map, true, x.Pos())
	if !g.assignAll {
		alts := []string{app(">", pObj(m), "alloc@0")}
		for _, r := range g.fnAssigns {
			if r.Whole && r.Map {
				alts = append(alts, sEq(pObj(m), r.Obj))
			}
		}
		g.oblige("frame", "map", x.Pos(), sOr(alts...))
	}
	// ownership ghost: a heap-only object stored in a map becomes owned by that map; only fresh or
	// already-owned objects may be inserted (so that other maps never lose their objects)
	if et, ok := deref(mt.Elem()); ok && g.isHeapType(et) {
		oc := g.mkptr(pObj(v), g.M.IxLit(0))
		g.oblige("ownership", "", x.Pos(), sOr(sEq(pObj(v), "0"), app(">", pObj(v), "alloc@0"), sEq(g.loadCell(g.cur, oc, "GOwn"), pObj(m))))
		g.storeCell(g.cur, oc, "GOwn", pObj(m))
		if g.sortOf(mt.Key()) == "Int" {
			// the key under which the object was inserted (gives distinctness of the values of distinct keys)
			g.storeCell(g.cur, g.mkptr(pObj(v), g.M.IxLit(1)), "GOwn", k)
		}
	}
	dom, val, card := g.mapDom(g.cur, ks), g.mapVal(g.cur, ks, vs), g.mapCard(g.cur)
	was := app("select", app("select", dom, pObj(m)), k)
	// a map has a non-negative number of keys, at least one if it holds k
	g.assumePC(sAnd(app("<=", "0", app("select", card, pObj(m))), sImp(was, app("<=", "1", app("select", card, pObj(m))))))
	if vs == "Slice" && !g.M.BV {
		// ghost: the sum of the lengths of the values of a slice-valued map
		vl := g.rawHeap(g.cur, "M_vlen", "(Array Int Int)")
		oldLen := sIte(was, app("sl.len", app("select", app("select", val, pObj(m)), k)), "0")
		g.setRawHeap(g.cur, "M_vlen", app("store", vl, pObj(m), app("+", app("-", app("select", vl, pObj(m)), oldLen), app("sl.len", v))))
	}
	g.setRawHeap(g.cur, "M_card", app("store", card, pObj(m), sIte(was, app("select", card, pObj(m)), app("+", app("select", card, pObj(m)), "1"))))
	g.setRawHeap(g.cur, g.mapDomName(ks), app("store", dom, pObj(m), app("store", app("select", dom, pObj(m)), k, "true")))
	g.setRawHeap(g.cur, g.mapValName(ks, vs), app("store", val, pObj(m), app("store", app("select", val, pObj(m)), k, v)))
}

func (g *Gen) visName(ks string) string { return "M_vis_" + heapName(ks)[2:] }

func (g *Gen) mapVis(st *State, ks string) string {
	return g.rawHeap(st, g.visName(ks), fmt.Sprintf("(Array Int (Array %s Bool))", ks))
}

func (g *Gen) rangeInstr(x *ssa.Range) {
	mt, ok := x.X.Type().Underlying().(*types.Map)
	if !ok {
		g.unsupported("range over %v", x.X.Type())
	}
	g.mapGuard(x.X, false, x.Pos())
	ks := g.L.CellSort(mt.Key())
	o := g.newObject(g.cur)
	vis := g.mapVis(g.cur, ks)
	g.setRawHeap(g.cur, g.visName(ks), app("store", vis, o, fmt.Sprintf("((as const (Array %s Bool)) false)", ks)))
	g.setRawHeap(g.cur, "M_nvis", app("store", g.rawHeap(g.cur, "M_nvis", "(Array Int Int)"), o, "0"))
	if g.L.CellSort(mt.Elem()) == "Slice" && !g.M.BV {
		g.setRawHeap(g.cur, "M_vissum", app("store", g.rawHeap(g.cur, "M_vissum", "(Array Int Int)"), o, "0"))
	}
	n := g.declare(g.valName(x), "Ptr")
	g.assume(sEq(n, g.mkptr(o, g.M.IxLit(0))))
}

func (g *Gen) nextInstr(x *ssa.Next) {
	if x.IsString {
		g.unsupported("range over string")
	}
	rg := x.Iter.(*ssa.Range)
	mt := rg.X.Type().Underlying().(*types.Map)
	ks, vs := g.L.CellSort(mt.Key()), g.L.CellSort(mt.Elem())
	it, m := g.val(rg), g.val(rg.X)
	okc := g.freshConst("ok", "Bool")
	k := g.freshConst("key", ks)
	dom := app("select", g.mapDom(g.cur, ks), pObj(m))
	vis := g.mapVis(g.cur, ks)
	visIt := app("select", vis, pObj(it))
	q := g.fresh("k")
	g.assumePC(sImp(okc, sAnd(g.nonNil(m), app("select", dom, k), sNot(app("select", visIt, k)))))
	g.assumePC(sImp(sNot(okc), sOr(sNot(g.nonNil(m)), fmt.Sprintf("(forall ((%s %s)) (=> (select %s %s) (select %s %s)))", q, ks, dom, q, visIt, q))))
	g.assumePC(g.wellFormed(k, mt.Key(), g.cur.Alloc))
	v := g.freshConst("mv", vs)
	g.assume(sEq(v, app("select", app("select", g.mapVal(g.cur, ks, vs), pObj(m)), k)))
	g.assumePC(g.wellFormed(v, mt.Elem(), g.cur.Alloc))
	g.setRawHeap(g.cur, g.visName(ks), sIte(okc, app("store", vis, pObj(it), app("store", visIt, k, "true")), vis))
	// number of keys produced so far: an iteration over a map that is not modified meanwhile produces every key exactly
	// once, so the count stays below the cardinality while keys remain and equals it at the end
	nv := g.rawHeap(g.cur, "M_nvis", "(Array Int Int)")
	cnt := app("select", nv, pObj(it))
	if !g.fnWritesMapOfType(mt) {
		card := app("select", g.mapCard(g.cur), pObj(m))
		g.assumePC(app("<=", "0", cnt))
		g.assumePC(sImp(okc, app("<", cnt, card)))
		g.assumePC(sImp(sAnd(sNot(okc), g.nonNil(m)), sEq(cnt, card)))
		g.assumePC(sImp(sNot(g.nonNil(m)), sEq(cnt, "0")))
	}
	g.setRawHeap(g.cur, "M_nvis", sIte(okc, app("store", nv, pObj(it), app("+", cnt, "1")), nv))
	if vs == "Slice" && !g.M.BV {
		// sum of the lengths of the values produced so far: below the map's total while keys remain, equal at the end
		vsum := g.rawHeap(g.cur, "M_vissum", "(Array Int Int)")
		cur := app("select", vsum, pObj(it))
		if !g.fnWritesMapOfType(mt) {
			total := app("select", g.rawHeap(g.cur, "M_vlen", "(Array Int Int)"), pObj(m))
			g.assumePC(app("<=", "0", cur))
			g.assumePC(sImp(okc, app("<=", app("+", cur, app("sl.len", v)), total)))
			g.assumePC(sImp(sAnd(sNot(okc), g.nonNil(m)), sEq(cur, total)))
		}
		g.setRawHeap(g.cur, "M_vissum", sIte(okc, app("store", vsum, pObj(it), app("+", cur, app("sl.len", v))), vsum))
	}
	g.tupleVals[x] = []string{okc, k, v}
}

// fnWritesMapOfType: the function under verification updates or deletes from some map of type mt (or calls something
// that may): then nothing is assumed about how many keys a range over such a map produces.
func (g *Gen) fnWritesMapOfType(mt *types.Map) bool {
	// only what happens while the iteration is in progress matters: the blocks of the loop whose header is the
	// block being generated (the `next` instruction of a range loop sits in its header)
	var blocks []*ssa.BasicBlock
	if l := g.loopOf[g.curBlock]; l != nil {
		for b := range l.Blocks {
			blocks = append(blocks, b)
		}
	} else {
		blocks = g.fn.Blocks
	}
	for _, b := range blocks {
		for _, in := range b.Instrs {
			switch in := in.(type) {
			case *ssa.MapUpdate:
				if types.Identical(in.Map.Type().Underlying(), mt) {
					return true
				}
			case ssa.CallInstruction:
				if g.callTouchesMaps(in) {
					return true
				}
			}
		}
	}
	return false
}

// ---------- loop effect of calls ----------

func (g *Gen) callTouchesMaps(in ssa.CallInstruction) bool {
	c := in.Common()
	if _, ok := c.Value.(*ssa.Builtin); ok {
		return c.Value.Name() == "delete"
	}
	ce := g.resolveCallee(c)
	return ce.spec == nil || ce.spec.AssignsAll || ce.spec.TouchesMaps
}

// callLoopEffect returns loop-invariant regions covering what the call may write, or all=true.
func (g *Gen) callLoopEffect(in ssa.CallInstruction, l *Loop) (regs []Region, all bool) {
	c := in.Common()
	if b, ok := c.Value.(*ssa.Builtin); ok && !c.IsInvoke() {
		switch b.Name() {
		case "copy", "clear":
			if _, isSl := c.Args[0].Type().Underlying().(*types.Slice); !isSl {
				return nil, true
			}
			r, fresh, ok := g.invSlice(c.Args[0], l)
			if ok && fresh {
				return nil, false
			}
			if ok {
				return []Region{r}, false
			}
			return nil, true
		case "delete":
			return nil, true
		}
		return nil, false
	}
	ce := g.resolveCallee(c)
	if ce.spec == nil || ce.spec.AssignsAll || ce.spec.TouchesMaps {
		return nil, true
	}
	if len(ce.spec.Assigns) == 0 {
		return nil, false
	}
	allInv := true
	for _, a := range ce.args {
		if !definedOutside(a, l) {
			allInv = false
		}
	}
	for _, b := range ce.bindings {
		if !definedOutside(b, l) {
			allInv = false
		}
	}
	if allInv {
		env := g.calleeEnv(ce, g.val, l.EntrySt)
		for _, a := range ce.spec.Assigns {
			r, err := env.EvalRegion(a)
			if err != nil {
				specFail("assigns of %s: %v", ce.key, err)
			}
			regs = append(regs, r)
		}
		return regs, false
	}
	// widen per assigns expression
	paramOf := func(name string) ssa.Value {
		for i, n := range ce.names {
			if n == name && i < len(ce.args) {
				return ce.args[i]
			}
		}
		if name == "self" && len(ce.args) > 0 {
			return ce.args[0]
		}
		return nil
	}
	for _, a := range ce.spec.Assigns {
		var r Region
		var fresh, ok bool
		switch a := a.(type) {
		case *ast.SliceExpr:
			if id, isId := a.X.(*ast.Ident); isId {
				if v := paramOf(id.Name); v != nil {
					r, fresh, ok = g.invSlice(v, l)
				}
			}
		case *ast.StarExpr:
			if id, isId := a.X.(*ast.Ident); isId {
				if v := paramOf(id.Name); v != nil {
					r, fresh, ok = g.invAddr(v, l)
				}
			}
		case *ast.CallExpr:
			// ghost(x) with a loop-variant x: some object's ghost state; over-approximated by all ghost state
			if id, isId := a.Fun.(*ast.Ident); isId && id.Name == "ghost" {
				r, fresh, ok = Region{AllObjs: true, Sorts: []string{"GInt"}}, false, true
			}
		}
		if !ok {
			return nil, true
		}
		if !fresh {
			regs = append(regs, r)
		}
	}
	return regs, false
}


// errorClasses lists the tracked error classes: typed error structs and sentinel errors of the module.
func (g *Gen) errorClasses() []string {
	if g.errClasses != nil {
		return g.errClasses
	}
	for _, sp := range g.P.SPkgs {
		for name, m := range sp.Members {
			switch m := m.(type) {
			case *ssa.Type:
				if st, ok := m.Type().Underlying().(*types.Struct); ok && strings.HasSuffix(name, "Error") && st.NumFields() == 1 && st.Field(0).Embedded() {
					g.errClasses = append(g.errClasses, fmt.Sprint(g.typeID(types.NewPointer(m.Type()))))
				}
			case *ssa.Global:
				if strings.HasPrefix(name, "err") && types.Identical(m.Type().(*types.Pointer).Elem(), types.Universe.Lookup("error").Type()) {
					g.errClasses = append(g.errClasses, g.sentinelClass(m))
				}
			}
		}
	}
	sort.Strings(g.errClasses)
	return g.errClasses
}

// sentinelClass is the error class of "errors.Is(e, <global sentinel>)".
func (g *Gen) sentinelClass(gl *ssa.Global) string {
	var names []string
	for _, sp := range g.P.SPkgs {
		for name, m := range sp.Members {
			if _, ok := m.(*ssa.Global); ok && strings.HasPrefix(name, "err") {
				names = append(names, sp.Pkg.Path()+"."+name)
			}
		}
	}
	sort.Strings(names)
	for i, n := range names {
		if n == gl.Pkg.Pkg.Path()+"."+gl.Name() {
			return fmt.Sprintf("(- %d)", 1000+i)
		}
	}
	return "(- 999)"
}

// errorfClasses: the classes of fmt.Errorf's result are those of the arguments wrapped with %w.
func (g *Gen) errorfClasses(ce *callee, r string, pre *State) {
	fc, ok := ce.args[0].(*ssa.Const)
	if !ok || fc.Value == nil {
		g.Warnings = append(g.Warnings, "fmt.Errorf with non-constant format: error classes unknown")
		return
	}
	format := constant.StringVal(fc.Value)
	var wrapped []int
	argi := 0
	for i := 0; i < len(format); i++ {
		if format[i] != '%' {
			continue
		}
		i++
		for i < len(format) && strings.ContainsRune("+-# 0123456789.", rune(format[i])) {
			i++
		}
		if i >= len(format) {
			break
		}
		if format[i] == '%' {
			continue
		}
		if format[i] == 'w' {
			wrapped = append(wrapped, argi)
		}
		argi++
	}
	sl := g.val(ce.args[1])
	for _, c := range g.errorClasses() {
		var alts []string
		for _, k := range wrapped {
			elem := g.loadCell(pre, g.ptrAdd(app("sl.ptr", sl), g.M.IxLit(int64(k))), "Iface")
			alts = append(alts, app("errclass", elem, c))
		}
		g.assumePC(sEq(app("errclass", r, c), sOr(alts...)))
	}
}


// dispatchRefine: after an interface method call, the contracts of the module's own implementations apply
// whenever the dynamic type of the receiver is that implementation (requires are checked, ensures assumed,
// both under the condition dyn(receiver) == T).
func (g *Gen) dispatchRefine(ce *callee, pre, post *State, results []string, pos token.Pos) {
	c := ce.invoke
	recv := g.val(c.Value)
	it, ok := c.Value.Type().Underlying().(*types.Interface)
	if !ok {
		return
	}
	for _, sp := range g.P.SPkgs {
		for _, m := range sp.Members {
			tm, ok := m.(*ssa.Type)
			if !ok {
				continue
			}
			for _, T := range []types.Type{tm.Type(), types.NewPointer(tm.Type())} {
				if _, isIface := T.Underlying().(*types.Interface); isIface || !types.Implements(T, it) {
					continue
				}
				sel := g.P.SSA.MethodSets.MethodSet(T).Lookup(c.Method.Pkg(), c.Method.Name())
				if sel == nil {
					continue
				}
				fn := g.P.SSA.MethodValue(sel)
				if fn == nil || fn.Synthetic != "" {
					continue
				}
				spec := g.DB.Funcs[FuncKey(fn)]
				if spec == nil || len(fn.Params) != len(c.Args)+1 {
					continue
				}
				if spec.Mode.BV != g.M.BV {
					continue // a contract written for the other integer model cannot be evaluated here: the interface-level contract stands alone
				}
				if _, isPtr := T.(*types.Pointer); !isPtr {
					continue // value receivers live in a box: not needed for the module's key and hasher types
				}
				g.UsedSpecs[FuncKey(fn)] = true
				if spec.RecvInv {
					g.Warnings = append(g.Warnings, "representation invariant of the receiver assumed at interface dispatch to "+FuncKey(fn)+" (established by the type's constructors)")
				}
				cond := sEq(app("if.dyn", recv), fmt.Sprint(g.typeID(T)))
				mk := func(st, old *State) *SpecEnv {
					env := &SpecEnv{g: g, vars: map[string]SVal{}, st: st, old: old, pkg: fn.Pkg.Pkg, alloc0: pre.Alloc}
					self := SVal{S: app("if.val", recv), T: T, Sort: "Ptr"}
					env.vars[fn.Params[0].Name()] = self
					env.vars["self"] = self
					for i, a := range c.Args {
						v := SVal{S: g.val(a), T: a.Type(), Sort: g.sortOf(a.Type())}
						env.vars[fn.Params[i+1].Name()] = v
						env.vars[fmt.Sprintf("arg%d", i)] = v
					}
					return env
				}
				envPre := mk(pre, pre)
				samePkg := fn.Pkg == g.fn.Pkg
				if n, ok := c.Value.Type().(*types.Named); ok && n.Obj().Pkg() != nil && n.Obj().Pkg() != fn.Pkg.Pkg {
					// an interface of another package (sha3.ShakeHash, io.Writer): its contract is what the call relies on;
					// what an implementation of this package adds is only available where its own precondition holds
					samePkg = false
				}
				for _, cl := range spec.Requires {
					s, err := envPre.EvalBool(cl.Expr)
					if err != nil {
						specFail("%s: requires of %s: %v", cl.Pos, FuncKey(fn), err)
					}
					if samePkg && !spec.RecvInv {
						g.oblige("requires", shortKey(FuncKey(fn))+"."+labelOr(cl.Label, cl.Src), pos, sImp(cond, s))
					} else {
						// representation invariants of another package's type: not the caller's to establish;
						// the implementation's postconditions are then only available where they hold
						cond = sAnd(cond, s)
					}
				}
				envPost := mk(post, pre)
				rs := fn.Signature.Results()
				for i := 0; i < rs.Len() && i < len(results); i++ {
					v := SVal{S: results[i], T: rs.At(i).Type(), Sort: g.sortOf(rs.At(i).Type())}
					envPost.vars[fmt.Sprintf("result%d", i)] = v
					if i == 0 {
						envPost.vars["result"] = v
					}
					if n := rs.At(i).Name(); n != "" && n != "_" {
						envPost.vars[n] = v
					}
				}
				for _, cl := range append(append([]Clause{}, spec.Ensures...), spec.Assumed...) {
					s, err := envPost.EvalBool(cl.Expr)
					if err != nil {
						specFail("%s: ensures of %s: %v", cl.Pos, FuncKey(fn), err)
					}
					g.assumePC(sImp(cond, s))
				}
			}
		}
	}
}


// errorsBuiltin gives errors.As(err, &target) and errors.Is(err, sentinel) their class semantics (assumed semantics of
// package errors, the same reading the `iserr(e, *T)` / `iserr(e, sentinel)` clauses of the contracts have):
// As with a target of static type **T answers errclass(err, *T) and may set the target; Is against a package-level
// sentinel of the module answers errclass(err, sentinel).
func (g *Gen) errorsBuiltin(in ssa.Instruction, c *ssa.CallCommon, res ssa.Value) bool {
	fn := c.StaticCallee()
	if fn == nil || c.IsInvoke() || fn.Pkg == nil || fn.Pkg.Pkg.Path() != "errors" || res == nil || len(c.Args) != 2 {
		return false
	}
	switch fn.Name() {
	case "As":
		mi, ok := c.Args[1].(*ssa.MakeInterface)
		if !ok {
			return false
		}
		pt, ok := mi.X.Type().Underlying().(*types.Pointer)
		if !ok {
			return false
		}
		if _, ok := pt.Elem().Underlying().(*types.Pointer); !ok {
			return false
		}
		g.errorClasses()
		g.defineVal(res, app("errclass", g.val(c.Args[0]), fmt.Sprint(g.typeID(pt.Elem()))))
		// the target variable receives the matching error (unknown pointer)
		nv := g.freshConst("astarget", "Ptr")
		g.assumePC(g.wellFormed(nv, pt.Elem(), g.cur.Alloc))
		g.storeCell(g.cur, g.val(mi.X), "Ptr", nv)
		return true
	case "Is":
		u, ok := c.Args[1].(*ssa.UnOp)
		if !ok || u.Op != token.MUL {
			return false
		}
		gl, ok := u.X.(*ssa.Global)
		if !ok || !strings.HasPrefix(gl.Name(), "err") {
			return false
		}
		g.errorClasses()
		g.defineVal(res, app("errclass", g.val(c.Args[0]), g.sentinelClass(gl)))
		return true
	}
	return false
}
