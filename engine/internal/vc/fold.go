package vc

import (
	"fmt"
	"go/ast"
	"go/types"
	"strings"
)

// Fold theory (int mode): sums of the n elements of an array segment in one of the groups the library computes in.
//   X_1(a, lo, n) = zero                                  for n <= 0
//   X_1(a, lo, n) = add(X_1(a, lo, n-1), a[lo+n-1])       for n > 0      (left fold, the order the C loops use)
// Arrays of multi-cell C values (E1 = 3 field elements, E2 = 3 pairs) are seen through pack3 / pack6, whose element k
// is the abstract point built from the cells of element k.
// The only fact beyond the definition is that a sum depends on nothing but the summed elements (sumExt): it is
// proved by induction on n in every run that uses it (base and step are solver obligations; the induction principle
// over the naturals is the meta-level step).
type foldOp struct{ name, add, zero string }

var foldOps = []foldOp{
	{"e1sum", "e1Add", "e1Inf"},
	{"e2sum", "e2Add", "e2Inf"},
	{"frsum", "frAdd", "0"},
	{"isum", "+", "0"},
}

// hornerOp: scale is a format with two holes (accumulator, point of evaluation)
type hornerOp struct{ name, add, scale, zero string }

var hornerOps = []hornerOp{
	{"e2horner", "e2Add", "(e2MulSmall %s %s)", "e2Inf"},
	{"frhorner", "frAdd", "(frMulM %s (frToMont %s))", "0"},
}

func hornerOpOf(name string) (hornerOp, bool) {
	for _, h := range hornerOps {
		if h.name == name {
			return h, true
		}
	}
	return hornerOp{}, false
}

// evalHorner evaluates e2horner(p, n, x) / frhorner(p, n, x): the polynomial with the n coefficients at p, evaluated at x
func (e *SpecEnv) evalHorner(h hornerOp, args []ast.Expr) SVal {
	if (len(args) != 3 && len(args) != 4) || e.g.M.BV {
		specFail("%s(p, n, x) or %s(p, first, n, x), int mode", h.name, h.name)
	}
	arr, lo := e.seqArg(h.name, args[0])
	if len(args) == 4 {
		// coefficients p[first], p[first+1], ...: the same array term for every `first` (no extensionality step needed)
		lo = simplifyAdd(lo, e.eval(args[1]).S)
		args = append([]ast.Expr{args[0]}, args[2:]...)
	}
	n := e.eval(args[1]).S
	x := e.eval(args[2]).S
	return SVal{S: app(h.name+"_1", arr, lo, n, x), T: typInt, Sort: "Int"}
}

func simplifyAdd(a, b string) string {
	if a == "0" {
		return b
	}
	if b == "0" {
		return a
	}
	return app("+", a, b)
}

const arrII = "(Array Int Int)"

func foldUnfold(op foldOp) string {
	var b strings.Builder
	f := op.name + "_1"
	fmt.Fprintf(&b, "(declare-fun %s (%s Int Int) Int)\n", f, arrII)
	fmt.Fprintf(&b, "(assert (forall ((a %s) (lo Int) (n Int)) (! (=> (<= n 0) (= (%s a lo n) %s)) :pattern ((%s a lo n)))))\n", arrII, f, op.zero, f)
	fmt.Fprintf(&b, "(assert (forall ((a %s) (lo Int) (n Int)) (! (=> (> n 0) (= (%s a lo n) (%s (%s a lo (- n 1)) (select a (+ lo (- n 1)))))) :pattern ((%s a lo n)))))\n", arrII, f, op.add, f, f)
	return b.String()
}

func foldExtBody(f, a, la, b, lb, n string) string {
	return fmt.Sprintf("(=> (forall ((k Int)) (=> (and (<= 0 k) (< k %s)) (= (select %s (+ %s k)) (select %s (+ %s k))))) (= (%s %s %s %s) (%s %s %s %s)))", n, a, la, b, lb, f, a, la, n, f, b, lb, n)
}

// foldExtLemma is the asserted form: the two counts are separate variables related by a hypothesis, so that the trigger
// (the pair of sums) also fires when the counts are equal only modulo arithmetic.
func foldExtLemma(f string) string {
	return fmt.Sprintf("(forall ((a %s) (la Int) (n Int) (b %s) (lb Int) (m Int)) (! (=> (and (= n m) (forall ((k Int)) (=> (and (<= 0 k) (< k n)) (= (select a (+ la k)) (select b (+ lb k)))))) (= (%s a la n) (%s b lb m))) :pattern ((%s a la n) (%s b lb m))))",
		arrII, arrII, f, f, f, f)
}

func foldTheory() string {
	var b strings.Builder
	for _, op := range foldOps {
		b.WriteString(foldUnfold(op))
	}
	// Horner folds: the value of the polynomial with the n coefficients a[lo], a[lo+1], ... at x, in the nesting the C loops
	// compute it (from the top coefficient down):  H(a, lo, n, x) = zero for n <= 0,  add(scale(H(a, lo+1, n-1, x), x), a[lo]) for n > 0
	b.WriteString("(declare-fun e2MulSmall (Int Int) Int)\n")
	for _, h := range hornerOps {
		f := h.name + "_1"
		fmt.Fprintf(&b, "(declare-fun %s (%s Int Int Int) Int)\n", f, arrII)
		fmt.Fprintf(&b, "(assert (forall ((a %s) (lo Int) (n Int) (x Int)) (! (=> (<= n 0) (= (%s a lo n x) %s)) :pattern ((%s a lo n x)))))\n", arrII, f, h.zero, f)
		fmt.Fprintf(&b, "(assert (forall ((a %s) (lo Int) (n Int) (x Int)) (! (=> (> n 0) (= (%s a lo n x) (%s %s (select a lo)))) :pattern ((%s a lo n x)))))\n",
			arrII, f, h.add, fmt.Sprintf(h.scale, fmt.Sprintf("(%s a (+ lo 1) (- n 1) x)", f), "x"), f)
	}
	for _, cf := range chunkFns {
		fmt.Fprintf(&b, "(declare-fun %s (%s Int) %s)\n", cf.smt, arrII, cf.ret)
		// the sequence of the values of cf on the consecutive n-byte chunks starting at (a, off); Bool values as 1 / 0
		el := fmt.Sprintf("(%s a (+ off (* %d k)))", cf.smt, cf.n)
		if cf.ret == "Bool" {
			el = "(ite " + el + " 1 0)"
		}
		fmt.Fprintf(&b, "(declare-fun %sSeq (%s Int) %s)\n", cf.smt, arrII, arrII)
		fmt.Fprintf(&b, "(assert (forall ((a %s) (off Int) (k Int)) (! (= (select (%sSeq a off) k) %s) :pattern ((select (%sSeq a off) k)))))\n", arrII, cf.smt, el, cf.smt)
	}
	// product of pairings (left fold in GT); gtPair / gtMul / gtOne are BLST's pairing, Fp12 multiplication and one
	b.WriteString("(declare-fun gtPair (Int Int) Int)\n(declare-fun gtMul (Int Int) Int)\n(declare-const gtOne Int)\n")
	fmt.Fprintf(&b, "(declare-fun mpair_1 (%s Int %s Int Int) Int)\n", arrII, arrII)
	fmt.Fprintf(&b, "(assert (forall ((p %s) (pl Int) (q %s) (ql Int) (n Int)) (! (=> (<= n 0) (= (mpair_1 p pl q ql n) gtOne)) :pattern ((mpair_1 p pl q ql n)))))\n", arrII, arrII)
	fmt.Fprintf(&b, "(assert (forall ((p %s) (pl Int) (q %s) (ql Int) (n Int)) (! (=> (> n 0) (= (mpair_1 p pl q ql n) (gtMul (mpair_1 p pl q ql (- n 1)) (gtPair (select p (+ pl (- n 1))) (select q (+ ql (- n 1))))))) :pattern ((mpair_1 p pl q ql n)))))\n", arrII, arrII)
	// aggregation tree of the batch verification (struct node: sig, pk, left, right at cells 0..3):
	// treeOK(h, n, len): n is the root of a well-formed tree over len leaves in the pointer heap h. Only the unfolding
	// direction is axiomatised (what a caller holding treeOK may rely on); the shape follows build_tree: the left
	// subtree covers len - len/2 leaves, the right one len/2, a leaf has no children.
	{
		hp := "(Array Int (Array Int Ptr))"
		fld := func(k int) string { return fmt.Sprintf("(select (select h (p.obj n)) (+ (p.off n) %d))", k) }
		validP := func(p string, cells int) string {
			return fmt.Sprintf("(and (not (= (p.obj %s) 0)) (<= 0 (p.off %s)) (<= (+ (p.off %s) %d) (objsize (p.obj %s))))", p, p, p, cells, p)
		}
		// (treeOKU equals treeOK; only U-terms are unfolded, and the subtrees appear as plain treeOK: no matching loop)
		fmt.Fprintf(&b, "(declare-fun treeOK (%s Ptr Int) Bool)\n(declare-fun treeOKU (%s Ptr Int) Bool)\n", hp, hp)
		fmt.Fprintf(&b, "(assert (forall ((h %s) (n Ptr) (len Int)) (! (= (treeOKU h n len) (treeOK h n len)) :pattern ((treeOKU h n len)))))\n", hp)
		fmt.Fprintf(&b, "(assert (forall ((h %s) (n Ptr) (len Int)) (! (=> (treeOK h n len) (and %s (>= len 1) %s %s (=> (= len 1) (= (p.obj %s) 0)) (=> (> len 1) (and (not (= (p.obj %s) 0)) (treeOK h %s (- len (div len 2))) (treeOK h %s (div len 2)))))) :pattern ((treeOKU h n len)))))\n",
			hp, validP("n", 4), validP(fld(0), 3), validP(fld(1), 6), fld(2), fld(2), fld(2), fld(3))
	}
	// tree-shaped sums (the order in which build_tree adds): one element for n <= 1, else add(left half, right half);
	// stated directly over the cells (stride = cells per element) so that the right half is the same function at a shifted offset
	for _, ts := range []struct {
		name, add string
		stride   int
		elem     string
	}{
		{"e1tsum_3", "e1Add", 3, "(e1c (select a o) (select a (+ o 1)) (select a (+ o 2)))"},
		{"e2tsum_6", "e2Add", 6, "(e2c (fp2c (select a o) (select a (+ o 1))) (fp2c (select a (+ o 2)) (select a (+ o 3))) (fp2c (select a (+ o 4)) (select a (+ o 5))))"},
		{"e1tsum_1", "e1Add", 1, "(select a o)"},
		{"e2tsum_1", "e2Add", 1, "(select a o)"},
	} {
		// (the contracts mention <name>U, which equals <name>; only the U-terms are unfolded, once: no matching loop)
		fmt.Fprintf(&b, "(declare-fun %s (%s Int Int) Int)\n(declare-fun %sU (%s Int Int) Int)\n", ts.name, arrII, ts.name, arrII)
		fmt.Fprintf(&b, "(assert (forall ((a %s) (o Int) (n Int)) (! (= (%sU a o n) (%s a o n)) :pattern ((%sU a o n)))))\n", arrII, ts.name, ts.name, ts.name)
		fmt.Fprintf(&b, "(assert (forall ((a %s) (o Int) (n Int)) (! (=> (<= n 1) (= (%s a o n) %s)) :pattern ((%sU a o n)))))\n", arrII, ts.name, ts.elem, ts.name)
		fmt.Fprintf(&b, "(assert (forall ((a %s) (o Int) (n Int)) (! (=> (> n 1) (= (%s a o n) (%s (%s a o (- n (div n 2))) (%s a (+ o (* %d (- n (div n 2)))) (div n 2))))) :pattern ((%sU a o n)))))\n",
			arrII, ts.name, ts.add, ts.name, ts.name, ts.stride, ts.name)
	}
	fmt.Fprintf(&b, "(declare-fun pack3 (%s Int) %s)\n", arrII, arrII)
	fmt.Fprintf(&b, "(assert (forall ((a %s) (lo Int) (k Int)) (! (= (select (pack3 a lo) k) (e1c (select a (+ lo (* 3 k))) (select a (+ lo (* 3 k) 1)) (select a (+ lo (* 3 k) 2)))) :pattern ((select (pack3 a lo) k)))))\n", arrII)
	fmt.Fprintf(&b, "(declare-fun pack6 (%s Int) %s)\n", arrII, arrII)
	fmt.Fprintf(&b, "(assert (forall ((a %s) (lo Int) (k Int)) (! (= (select (pack6 a lo) k) (e2c (fp2c (select a (+ lo (* 6 k))) (select a (+ lo (* 6 k) 1))) (fp2c (select a (+ lo (* 6 k) 2)) (select a (+ lo (* 6 k) 3))) (fp2c (select a (+ lo (* 6 k) 4)) (select a (+ lo (* 6 k) 5))))) :pattern ((select (pack6 a lo) k)))))\n", arrII)
	return b.String()
}

func init() {
	for _, op := range foldOps {
		f := op.name + "_1"
		decl := func(p string) []string {
			return []string{
				fmt.Sprintf("(declare-const %sa %s)", p, arrII), fmt.Sprintf("(declare-const %sb %s)", p, arrII),
				fmt.Sprintf("(declare-const %sla Int)", p), fmt.Sprintf("(declare-const %slb Int)", p), fmt.Sprintf("(declare-const %sn Int)", p),
			}
		}
		pb, ps := "fb_"+op.name+"_", "fs_"+op.name+"_"
		Lemmas = append(Lemmas, Lemma{
			Name: op.name + "-depends-only-on-the-summed-elements",
			SMT:  foldExtLemma(f),
			Uses: []string{f},
			Steps: []LemmaStep{
				{Name: "induction-base", Decls: decl(pb), Goal: sImp(fmt.Sprintf("(<= %sn 0)", pb), foldExtBody(f, pb+"a", pb+"la", pb+"b", pb+"lb", pb+"n"))},
				{Name: "induction-step", Decls: decl(ps), Goal: sImp(sAnd(fmt.Sprintf("(>= %sn 0)", ps), foldExtBody(f, ps+"a", ps+"la", ps+"b", ps+"lb", ps+"n")),
					foldExtBody(f, ps+"a", ps+"la", ps+"b", ps+"lb", fmt.Sprintf("(+ %sn 1)", ps)))},
			},
		})
	}
}

func mpairExtBody(p, pl, q, ql, p2, pl2, q2, ql2, n string) string {
	return fmt.Sprintf("(=> (forall ((k Int)) (=> (and (<= 0 k) (< k %s)) (and (= (select %s (+ %s k)) (select %s (+ %s k))) (= (select %s (+ %s k)) (select %s (+ %s k)))))) (= (mpair_1 %s %s %s %s %s) (mpair_1 %s %s %s %s %s)))",
		n, p, pl, p2, pl2, q, ql, q2, ql2, p, pl, q, ql, n, p2, pl2, q2, ql2, n)
}

func isumMonoBody(a, lo, n, m string) string {
	return fmt.Sprintf("(=> (and (forall ((q Int)) (! (=> (and (<= %s q) (< q (+ %s %s))) (<= 0 (select %s q))) :pattern ((select %s q)))) (<= 0 %s) (<= %s %s)) (<= (isum_1 %s %s %s) (isum_1 %s %s %s)))",
		lo, lo, m, a, a, n, n, m, a, lo, n, a, lo, m)
}

func init() {
	decl := func(pre string, arrs, ints []string) (out []string) {
		for _, x := range arrs {
			out = append(out, fmt.Sprintf("(declare-const %s%s %s)", pre, x, arrII))
		}
		for _, x := range ints {
			out = append(out, fmt.Sprintf("(declare-const %s%s Int)", pre, x))
		}
		return out
	}
	arrs, ints := []string{"p", "q", "p2", "q2"}, []string{"pl", "ql", "pl2", "ql2", "n"}
	b, s := "mb_", "ms_"
	Lemmas = append(Lemmas, Lemma{
		Name: "pairing-product-depends-only-on-the-paired-elements",
		SMT: fmt.Sprintf("(forall ((p %s) (pl Int) (q %s) (ql Int) (n Int) (p2 %s) (pl2 Int) (q2 %s) (ql2 Int) (m Int)) (! (=> (and (= n m) (forall ((k Int)) (=> (and (<= 0 k) (< k n)) (and (= (select p (+ pl k)) (select p2 (+ pl2 k))) (= (select q (+ ql k)) (select q2 (+ ql2 k))))))) (= (mpair_1 p pl q ql n) (mpair_1 p2 pl2 q2 ql2 m))) :pattern ((mpair_1 p pl q ql n) (mpair_1 p2 pl2 q2 ql2 m))))",
			arrII, arrII, arrII, arrII),
		Uses: []string{"mpair_1"},
		Steps: []LemmaStep{
			{Name: "induction-base", Decls: decl(b, arrs, ints), Goal: sImp("(<= "+b+"n 0)", mpairExtBody(b+"p", b+"pl", b+"q", b+"ql", b+"p2", b+"pl2", b+"q2", b+"ql2", b+"n"))},
			{Name: "induction-step", Decls: decl(s, arrs, ints), Goal: sImp(sAnd("(>= "+s+"n 0)", mpairExtBody(s+"p", s+"pl", s+"q", s+"ql", s+"p2", s+"pl2", s+"q2", s+"ql2", s+"n")),
				mpairExtBody(s+"p", s+"pl", s+"q", s+"ql", s+"p2", s+"pl2", s+"q2", s+"ql2", "(+ "+s+"n 1)"))},
		},
	})
	// a sum of non-negative integers grows with the number of summands (induction on the larger count m)
	ib, is := "ib_", "is_"
	Lemmas = append(Lemmas, Lemma{
		Name: "isum-of-non-negative-elements-is-monotone",
		SMT: fmt.Sprintf("(forall ((a %s) (lo Int) (n Int) (m Int)) (! %s :pattern ((isum_1 a lo n) (isum_1 a lo m))))", arrII, isumMonoBody("a", "lo", "n", "m")),
		Uses: []string{"isum_1"},
		Steps: []LemmaStep{
			{Name: "induction-base", Decls: decl(ib, []string{"a"}, []string{"lo", "n", "m"}), Goal: sImp("(<= "+ib+"m "+ib+"n)", isumMonoBody(ib+"a", ib+"lo", ib+"n", ib+"m"))},
			{Name: "induction-step", Decls: decl(is, []string{"a"}, []string{"lo", "n", "m"}), Goal: sImp(sAnd("(>= "+is+"m "+is+"n)", isumMonoBody(is+"a", is+"lo", is+"n", is+"m")),
				isumMonoBody(is+"a", is+"lo", is+"n", "(+ "+is+"m 1)"))},
		},
	})
}

// foldOpOf maps the contract-level names e1sum/e2sum/frsum/isum (and their gather forms ...of) to the fold.
func foldOpOf(name string) (foldOp, bool, bool) {
	if name == "e1tsum" || name == "e2tsum" {
		return foldOp{name: name}, false, true
	}
	gather := strings.HasSuffix(name, "of")
	base := strings.TrimSuffix(name, "of")
	for _, op := range foldOps {
		if op.name == base {
			return op, gather, true
		}
	}
	return foldOp{}, false, false
}

// evalFold evaluates
//   e2sum(p, n)               sum of the n elements at pointer or slice p
//   e2sumof(k, lo, hi, expr)  sum of expr(k) for k = lo .. hi-1 (the elements are gathered in a fresh array that is
//                             defined pointwise; sums over equal elements are equal by the sumExt lemma)
func (e *SpecEnv) evalFold(name string, op foldOp, gather bool, args []ast.Expr) SVal {
	g := e.g
	if g.M.BV {
		specFail("%s: sums are only available in int mode", name)
	}
	f := op.name + "_1"
	if gather {
		if len(args) != 4 {
			specFail("%s(k, lo, hi, expr)", name)
		}
		lo, hi := e.eval(args[1]).S, e.eval(args[2]).S
		arr := e.gatherArray(name, args[0], args[3])
		return SVal{S: app(f, arr, lo, app("-", hi, lo)), T: typInt, Sort: "Int"}
	}
	if len(args) != 2 {
		specFail("%s(p, n)", name)
	}
	if name == "e1tsum" || name == "e2tsum" {
		// tree-shaped sum over the cells at a pointer or slice
		p := e.eval(args[0])
		n := e.eval(args[1]).S
		var ptr string
		var et types.Type
		if t, ok := deref(p.T); ok {
			ptr, et = p.S, t
		} else if st, ok := p.T.Underlying().(*types.Slice); ok {
			ptr, et = app("sl.ptr", p.S), st.Elem()
		} else {
			specFail("%s: argument is neither a pointer nor a slice", name)
		}
		fn := fmt.Sprintf("%s_%dU", name, g.L.Size(et))
		return SVal{S: app(fn, app("select", g.heapTerm(e.st, "Int"), pObj(ptr)), pOff(ptr), n), T: typInt, Sort: "Int"}
	}
	arr, lo := e.seqArg(name, args[0])
	n := e.eval(args[1]).S
	return SVal{S: app(f, arr, lo, n), T: typInt, Sort: "Int"}
}

// seqArg evaluates a sequence argument: a spec-level sequence, or the elements at a pointer / slice (arrays of
// multi-cell C points are seen through pack3 / pack6). It returns the array and the index of element 0.
func (e *SpecEnv) seqArg(name string, x ast.Expr) (arr, lo string) {
	g := e.g
	p := e.eval(x)
	if p.Sort == arrII {
		return p.S, "0"
	}
	var ptr string
	var et types.Type
	if t, ok := deref(p.T); ok {
		ptr, et = p.S, t
		if at, isArr := t.Underlying().(*types.Array); isArr && !isOpaque(t) {
			et = at.Elem()
		}
	} else if st, ok := p.T.Underlying().(*types.Slice); ok {
		ptr, et = app("sl.ptr", p.S), st.Elem()
	} else {
		specFail("%s: argument is neither a sequence, a pointer nor a slice", name)
	}
	a := app("select", g.heapTerm(e.st, "Int"), pObj(ptr))
	switch g.L.Size(et) {
	case 1:
		return a, pOff(ptr)
	case 3:
		return app("pack3", a, pOff(ptr)), "0"
	case 6:
		return app("pack6", a, pOff(ptr)), "0"
	}
	specFail("%s: unsupported element type %v", name, et)
	return "", ""
}

// evalPairs evaluates mpairs(p, q, n): the product in GT of the pairings e(p[k], q[k]), k < n (left fold).
func (e *SpecEnv) evalPairs(args []ast.Expr) SVal {
	if len(args) != 3 || e.g.M.BV {
		specFail("mpairs(p, q, n), int mode")
	}
	pa, pl := e.seqArg("mpairs", args[0])
	qa, ql := e.seqArg("mpairs", args[1])
	n := e.eval(args[2]).S
	return SVal{S: app("mpair_1", pa, pl, qa, ql, n), T: typInt, Sort: "Int"}
}

// gatherArray returns the array whose element k is expr(k) (defined pointwise). The same defining term yields the same
// array constant, so that a sequence described in the old state is one object in every clause that mentions it.
func (e *SpecEnv) gatherArray(name string, kx ast.Expr, body ast.Expr) string {
	g := e.g
	for _, b := range e.bound {
		_ = b
	}
	k := kx.(*ast.Ident).Name
	q := g.fresh(k)
	sub := e.bind(k, SVal{S: q, T: typInt, Sort: "Int"})
	sub.bound = append(append([]string{}, e.bound...), q)
	sub.pats = nil
	v := sub.abstractC(sub.eval(body))
	if v.Sort != "Int" {
		specFail("%s: the element expression has sort %s", name, v.Sort)
	}
	for _, b := range e.bound {
		if strings.Contains(v.S, b) {
			specFail("%s: the element expression mentions an enclosing bound variable", name)
		}
	}
	key := strings.ReplaceAll(v.S, q, "?k")
	if g.gathers == nil {
		g.gathers = map[string]string{}
	}
	if a, ok := g.gathers[key]; ok {
		return a
	}
	arr := g.freshConst("ga", arrII)
	g.gathers[key] = arr
	g.assume(fmt.Sprintf("(forall ((%s Int)) (! (= (select %s %s) %s) :pattern ((select %s %s))))", q, arr, q, v.S, arr, q))
	return arr
}

// evalSeq evaluates the sequence forms
//   seqof(k, expr)   the sequence whose element k is expr(k)
//   at(seq, i)       element i of a sequence
//   ptAt(p, i)       element i (as an abstract point) of the array of multi-cell C points at p
func (e *SpecEnv) evalSeq(name string, args []ast.Expr) (SVal, bool) {
	g := e.g
	note := func(term, idx string) {
		if e.pats != nil {
			for _, b := range e.bound {
				if idx == b {
					*e.pats = append(*e.pats, term)
				}
			}
		}
	}
	switch name {
	case "seqof":
		if len(args) != 2 {
			specFail("seqof(k, expr)")
		}
		return SVal{S: e.gatherArray(name, args[0], args[1]), Sort: arrII}, true
	case "at":
		if len(args) != 2 {
			specFail("at(seq, i)")
		}
		a := e.eval(args[0])
		if a.Sort != arrII {
			specFail("at: first argument is not a sequence")
		}
		i := e.eval(args[1]).S
		t := app("select", a.S, i)
		note(t, i)
		return SVal{S: t, T: typInt, Sort: "Int"}, true
	case "ptAt":
		if len(args) != 2 {
			specFail("ptAt(p, i)")
		}
		p := e.eval(args[0])
		et, ok := deref(p.T)
		if !ok {
			specFail("ptAt: first argument is not a pointer")
		}
		arr := app("select", g.heapTerm(e.st, "Int"), pObj(p.S))
		i := e.eval(args[1]).S
		var t string
		switch g.L.Size(et) {
		case 1:
			t = app("select", arr, app("+", pOff(p.S), i))
		case 3:
			t = app("select", app("pack3", arr, pOff(p.S)), i)
		case 6:
			t = app("select", app("pack6", arr, pOff(p.S)), i)
		default:
			specFail("ptAt: unsupported element type %v", et)
		}
		note(t, i)
		return SVal{S: t, T: typInt, Sort: "Int"}, true
	}
	return SVal{}, false
}

// Chunk functions: the decoded point / canonicity of the n-byte string starting at a pointer, as a function of the
// byte array and the offset. Their definition is the byte-level predicate of the same name in the contract file
// (g1pt, g1canon, ...); it is unfolded only in the functions that ask for it (`unfold=` option: the deserialization
// functions, where the byte-level contract is proved). Everywhere else only the consequence "the value depends on
// nothing but the n bytes" is used; it is proved from the definition in every run (chunk lemma).
type chunkFn struct {
	name, smt, pred string
	n               int64
	ret             string
}

var chunkFns = []chunkFn{
	{"g1ptAt", "g1ptA", "g1pt", 48, "Int"},
	{"g1canonAt", "g1canonA", "g1canon", 48, "Bool"},
	{"g2ptAt", "g2ptA", "g2pt", 96, "Int"},
	{"g2canonAt", "g2canonA", "g2canon", 96, "Bool"},
	{"h2cAt", "h2cA", "h2cOf", 128, "Int"}, // hash-to-curve image of the 128-byte string (pred h2cOf(b) = h2cb(b[0:128]))
	{"be16At", "be16A", "be16Of", 16, "Int"}, // big-endian value of 16 bytes (pred be16Of(b) = be16(b[0:16]))
}

func chunkFnOf(name string) (chunkFn, bool) {
	for _, cf := range chunkFns {
		if cf.name == name {
			return cf, true
		}
		// g1ptSeqAt(p): the sequence of the values on the consecutive chunks starting at p
		if strings.TrimSuffix(cf.name, "At")+"SeqAt" == name {
			c := cf
			c.name = name
			c.smt = cf.smt + "Seq"
			c.ret = arrII
			return c, true
		}
	}
	return chunkFn{}, false
}

func (e *SpecEnv) evalChunk(cf chunkFn, args []ast.Expr) SVal {
	g := e.g
	if len(args) != 1 || g.M.BV {
		specFail("%s(p): one pointer or slice argument, int mode", cf.name)
	}
	p := e.eval(args[0])
	ptr := ""
	if _, ok := deref(p.T); ok {
		ptr = p.S
	} else if _, ok := p.T.Underlying().(*types.Slice); ok {
		ptr = app("sl.ptr", p.S)
	} else {
		specFail("%s: argument is neither a pointer nor a slice", cf.name)
	}
	t := app(cf.smt, app("select", g.heapTerm(e.st, "Int"), pObj(ptr)), pOff(ptr))
	if cf.ret == "Bool" {
		return SVal{S: t, T: types.Typ[types.Bool], Sort: "Bool"}
	}
	if cf.ret == arrII {
		return SVal{S: t, Sort: arrII}
	}
	return SVal{S: t, T: typInt, Sort: "Int"}
}

// chunkDefinition returns the defining axiom of cf: for every heap h, object o and offset off,
// cf(h[o], off) = <the byte-level predicate of the contract file applied to the n bytes at (o, off) in h>.
func (g *Gen) chunkDefinition(cf chunkFn) string {
	p, ok := g.DB.Preds[cf.pred]
	if !ok || len(p.Params) != 1 {
		specFail("chunk function %s: no one-parameter pred %s in the contract files", cf.name, cf.pred)
	}
	wasC := g.isC
	g.isC = true // no typed-memory side assumptions while evaluating the definition
	defer func() { g.isC = wasC }()
	g.heapFor("Int")
	st := &State{H: map[string]string{heapName("Int"): "hX!c"}, Alloc: "alloc@0"}
	env := &SpecEnv{g: g, vars: map[string]SVal{}, st: st, old: st}
	n := g.M.IxLit(cf.n)
	env.vars[p.Params[0]] = SVal{S: app("mksl", g.mkptr("oX!c", "offX!c"), n, n), T: types.NewSlice(types.Typ[types.Uint8]), Sort: "Slice"}
	v := env.eval(p.Body)
	return fmt.Sprintf("(assert (forall ((hX!c %s) (oX!c Int) (offX!c Int)) (! (= (%s (select hX!c oX!c) offX!c) %s) :pattern ((%s (select hX!c oX!c) offX!c)))))",
		g.L.HeapSort("Int"), cf.smt, v.S, cf.smt)
}

// ChunkLemmas builds, from the predicates of the contract files, the lemmas "cf depends only on its n bytes".
func ChunkLemmas(P *Program, db *SpecDB) (out []Lemma) {
	for _, cf := range chunkFns {
		if _, ok := db.Preds[cf.pred]; !ok {
			continue
		}
		g := &Gen{P: P, DB: db, M: Mode{}, spec: &FuncSpec{Loops: map[int]*LoopSpec{}}, key: "chunk-lemma"}
		g.L = NewLayout(g.M)
		g.isC = true
		g.init()
		var def string
		func() {
			defer func() {
				if r := recover(); r != nil {
					def = ""
				}
			}()
			def = g.chunkDefinition(cf)
		}()
		if def == "" {
			continue
		}
		pre := "cl_" + cf.smt + "_"
		hs := NewLayout(Mode{}).HeapSort("Int")
		decls := append([]string{}, g.decls...)
		decls = append(decls, g.prelude...)
		decls = append(decls, def,
			fmt.Sprintf("(declare-const %sh1 %s)", pre, hs), fmt.Sprintf("(declare-const %sh2 %s)", pre, hs),
			fmt.Sprintf("(declare-const %so1 Int)", pre), fmt.Sprintf("(declare-const %so2 Int)", pre),
			fmt.Sprintf("(declare-const %sa Int)", pre), fmt.Sprintf("(declare-const %sb Int)", pre))
		a1, a2 := fmt.Sprintf("(select %sh1 %so1)", pre, pre), fmt.Sprintf("(select %sh2 %so2)", pre, pre)
		hyp := func(x, ox, y, oy string) string {
			return fmt.Sprintf("(forall ((q Int)) (! (=> (and (<= %s q) (< q (+ %s %d))) (= (select %s q) (select %s (+ (- q %s) %s)))) :pattern ((select %s q))))", ox, ox, cf.n, x, y, ox, oy, x)
		}
		out = append(out, Lemma{
			Name: cf.name + "-depends-only-on-its-" + fmt.Sprint(cf.n) + "-bytes",
			SMT: fmt.Sprintf("(forall ((a %s) (oa Int) (b %s) (ob Int)) (! (=> %s (= (%s a oa) (%s b ob))) :pattern ((%s a oa) (%s b ob))))",
				arrII, arrII, hyp("a", "oa", "b", "ob"), cf.smt, cf.smt, cf.smt, cf.smt),
			Uses: []string{cf.smt, cf.smt + "Seq"},
			Steps: []LemmaStep{{Name: "from-the-definition", Decls: decls,
				Goal: sImp(hyp(a1, pre+"a", a2, pre+"b"), sEq(app(cf.smt, a1, pre+"a"), app(cf.smt, a2, pre+"b")))}},
		})
	}
	return out
}

var derivedLemmasInstalled bool

// InstallDerivedLemmas adds the lemmas that are generated from the contract files (once per process).
func InstallDerivedLemmas(P *Program, db *SpecDB) {
	if derivedLemmasInstalled {
		return
	}
	derivedLemmasInstalled = true
	Lemmas = append(Lemmas, ChunkLemmas(P, db)...)
}

// unfoldChunkDefinitions makes the byte-level definitions of the chunk functions named in the contract's `unfold=`
// option available to the body proof.
func (g *Gen) unfoldChunkDefinitions() {
	for _, n := range g.spec.Unfold {
		cf, ok := chunkFnOf(n)
		if !ok {
			specFail("unfold=%s: no such chunk function", n)
		}
		g.prelude = append(g.prelude, g.chunkDefinition(cf))
	}
}
