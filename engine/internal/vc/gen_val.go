package vc

import (
	"fmt"
	"go/constant"
	"go/types"
	"math/big"
	"strings"

	"golang.org/x/tools/go/ssa"
)

func sanitize(s string) string {
	r := strings.NewReplacer(" ", "_", "(", "_", ")", "_", "*", "P", "/", "_", ",", "_", "[", "_", "]", "_", "{", "_", "}", "_", ";", "_", "\"", "_", "|", "_", "#", "_")
	return r.Replace(s)
}

func (g *Gen) sortOf(t types.Type) string { return g.L.ValSort(t) }

func (g *Gen) strlit(s string) string {
	if n, ok := g.strlits[s]; ok {
		return n
	}
	if s == "" {
		g.strlits[s] = "str_empty"
		return "str_empty"
	}
	n := fmt.Sprintf("strlit!%d", len(g.strlits))
	g.declare(n, "Str")
	// distinct from all earlier literals, known length
	for o, on := range g.strlits {
		_ = o
		g.assume(app("distinct", n, on))
	}
	g.strlits[s] = n
	g.assume(sEq(app("slen", n), g.M.IxLit(int64(len(s)))))
	return n
}

// unaliasDeep removes type aliases at the top and below pointers (btcec.KoblitzCurve = secp256k1.KoblitzCurve).
func unaliasDeep(t types.Type) types.Type {
	t = types.Unalias(t)
	if p, ok := t.(*types.Pointer); ok {
		if e := unaliasDeep(p.Elem()); e != p.Elem() {
			return types.NewPointer(e)
		}
	}
	return t
}

func (g *Gen) typeID(t types.Type) int {
	t = unaliasDeep(t)
	k := t.String()
	if id, ok := g.typeIDs[k]; ok {
		return id
	}
	id := len(g.typeIDs) + 1
	g.typeIDs[k] = id
	g.typeByID = append(g.typeByID, t)
	for in, it := range g.ifaces {
		g.assume(sEq(app("impl_"+in, fmt.Sprint(id)), boolLit(types.Implements(t, it))))
	}
	return id
}

func boolLit(b bool) string {
	if b {
		return "true"
	}
	return "false"
}

func (g *Gen) ifaceName(t types.Type) string {
	it := t.Underlying().(*types.Interface)
	name := sanitize(ShortName(t.String()))
	if _, ok := g.ifaces[name]; ok {
		return name
	}
	g.ifaces[name] = it
	g.declareFun("impl_"+name, []string{"Int"}, "Bool")
	g.assume(sEq(app("impl_"+name, "0"), "false"))
	for i, ct := range g.typeByID {
		g.assume(sEq(app("impl_"+name, fmt.Sprint(i+1)), boolLit(types.Implements(ct, it))))
	}
	return name
}

func (g *Gen) globalPtr(gl *ssa.Global) string {
	id, ok := g.globals[gl]
	if !ok {
		id = len(g.globals) + 1
		g.globals[gl] = id
	}
	return g.mkptr(fmt.Sprintf("(- %d)", id), g.M.IxLit(0))
}

func (g *Gen) funcID(name string) string {
	id, ok := g.funcIDs[name]
	if !ok {
		id = len(g.funcIDs) + 1
		g.funcIDs[name] = id
	}
	return fmt.Sprint(id)
}

// valPrefixOf: values of a callee translated in place carry the prefix of their inlining instance.
func (g *Gen) valPrefixOf(v ssa.Value) string {
	if len(g.inlStack) == 0 {
		return ""
	}
	if v.Parent() == g.fn {
		return g.valPrefix
	}
	return ""
}

func (g *Gen) valName(v ssa.Value) string {
	switch v := v.(type) {
	case *ssa.Parameter:
		return g.valPrefixOf(v) + "a_" + sanitize(v.Name())
	case *ssa.FreeVar:
		return "fv_" + sanitize(v.Name())
	}
	return g.valPrefixOf(v) + "v_" + sanitize(v.Name())
}

// val returns the SMT term of an SSA value.
func (g *Gen) val(v ssa.Value) string {
	switch v := v.(type) {
	case *ssa.Const:
		return g.constTerm(v)
	case *ssa.Global:
		return g.globalPtr(v)
	case *ssa.Function:
		return g.funcID(v.String())
	case *ssa.Builtin:
		return "0"
	}
	return g.valName(v)
}

func (g *Gen) constTerm(c *ssa.Const) string {
	t := c.Type()
	sortS := g.sortOf(t)
	if c.Value == nil {
		if isComposite(t) {
			// zero value of aggregate type: a fresh zeroed temp object
			return g.zeroTemp(t)
		}
		return g.L.Zero(sortS)
	}
	switch c.Value.Kind() {
	case constant.Bool:
		return boolLit(constant.BoolVal(c.Value))
	case constant.String:
		return g.strlit(constant.StringVal(c.Value))
	case constant.Int:
		n, _ := new(big.Int).SetString(c.Value.ExactString(), 10)
		if sortS == "Real" {
			return n.String() + ".0"
		}
		return g.M.IntLit(n, t)
	case constant.Float:
		f, _ := constant.Float64Val(c.Value)
		return fmt.Sprintf("%f", f)
	}
	panic("constTerm: " + c.String())
}

func (g *Gen) zeroTemp(t types.Type) string {
	o := g.newObject(g.cur)
	g.zeroObject(g.cur, o, t)
	return g.mkptr(o, g.M.IxLit(0))
}

// typeRange returns the range constraint of an integer-typed term (int mode), or "true".
func (g *Gen) typeRange(term string, t types.Type) string {
	if g.M.BV || isOpaque(t) {
		return "true"
	}
	b, ok := t.Underlying().(*types.Basic)
	if !ok || b.Info()&types.IsInteger == 0 {
		return "true"
	}
	w, signed := intBits(b)
	if w == 0 {
		return "true"
	}
	lo, hi := intRange(w, signed)
	return sAnd(app("<=", g.M.IntLit(lo, nil), term), app("<=", term, g.M.IntLit(hi, nil)))
}

func intRange(w int, signed bool) (*big.Int, *big.Int) {
	if signed {
		h := pow2(w - 1)
		return new(big.Int).Neg(h), new(big.Int).Sub(h, big.NewInt(1))
	}
	return big.NewInt(0), new(big.Int).Sub(pow2(w), big.NewInt(1))
}

// wellFormed gives the assumptions that hold for any value of type t obtained from outside (param, load, call result).
func (g *Gen) wellFormed(term string, t types.Type, alloc string) string {
	switch g.sortOf(t) {
	case "Int":
		return g.typeRange(term, t)
	case "Ptr":
		ext := "true"
		if et, ok := deref(t); ok {
			ext = sOr(sEq(pObj(term), "0"), g.M.ixLe(g.M.ixAdd(pOff(term), g.M.IxLit(g.L.Size(et))), app("objsize", pObj(term))))
			if g.isHeapType(et) {
				ext = sAnd(ext, sOr(sEq(pObj(term), "0"), sAnd(sEq(app("objtype", pObj(term)), fmt.Sprint(g.typeID(et))), sEq(pOff(term), g.M.IxLit(0)))))
			} else {
				ext = sAnd(ext, g.notInHeapTypes(pObj(term), et))
			}
		}
		// (package-level variables have negative object ids: pointers received from outside never point into them)
		return sAnd(app("<=", pObj(term), alloc), app("<=", "0", pObj(term)), g.M.ixLe(g.M.IxLit(0), pOff(term)), g.M.ixLe(pOff(term), g.M.IxLit(1<<48)), ext)
	case "Slice":
		p := app("sl.ptr", term)
		return sAnd(app("<=", pObj(p), alloc), app("<=", "0", pObj(p)),
			g.M.ixLe(g.M.IxLit(0), app("sl.len", term)), g.M.ixLe(app("sl.len", term), app("sl.cap", term)),
			g.M.ixLe(g.M.IxLit(0), pOff(p)), g.M.ixLe(pOff(p), g.M.IxLit(1<<48)), g.M.ixLe(app("sl.cap", term), g.M.IxLit(1<<31-1)),
			sOr(sEq(pObj(p), "0"), g.M.ixLe(g.M.ixAdd(pOff(p), g.M.ixMulC(app("sl.cap", term), g.sliceElemSize(t))), app("objsize", pObj(p)))),
			g.notInHeapTypes(pObj(p), t.Underlying().(*types.Slice).Elem()),
			sImp(sEq(pObj(p), "0"), sEq(app("sl.cap", term), g.M.IxLit(0))))
	case "Iface":
		cs := []string{app("<=", pObj(app("if.val", term)), alloc), app("<=", "0", pObj(app("if.val", term))), app("<=", "0", app("if.dyn", term)),
			sImp(sEq(app("if.dyn", term), "0"), sEq(app("if.val", term), nilPtr(g.M)))}
		// an interface whose dynamic type is a pointer to a heap-only type holds a pointer to an object of that type
		for _, h := range g.DB.HeapTypes {
			if ht := g.lookupNamed(h); ht != nil {
				v := app("if.val", term)
				cs = append(cs, sImp(sEq(app("if.dyn", term), fmt.Sprint(g.typeID(types.NewPointer(ht)))),
					sOr(sEq(pObj(v), "0"), sAnd(sEq(app("objtype", pObj(v)), fmt.Sprint(g.typeID(ht))), sEq(pOff(v), g.M.IxLit(0))))))
			}
		}
		return sAnd(cs...)
	case "Str":
		return g.M.ixLe(g.M.IxLit(0), app("slen", term))
	}
	return "true"
}

// typedFacts: what Go's type safety says about a reference of static type t with respect to the heap-only types.
func (g *Gen) typedFacts(term string, t types.Type) string {
	switch g.sortOf(t) {
	case "Ptr":
		if et, ok := deref(t); ok {
			if g.isHeapType(et) {
				return sOr(sEq(pObj(term), "0"), sAnd(sEq(app("objtype", pObj(term)), fmt.Sprint(g.typeID(et))), sEq(pOff(term), g.M.IxLit(0))))
			}
			return g.notInHeapTypes(pObj(term), et)
		}
	case "Slice":
		if st, ok := t.Underlying().(*types.Slice); ok {
			return g.notInHeapTypes(pObj(app("sl.ptr", term)), st.Elem())
		}
	case "Iface":
		var cs []string
		for _, h := range g.DB.HeapTypes {
			if ht := g.lookupNamed(h); ht != nil {
				v := app("if.val", term)
				cs = append(cs, sImp(sEq(app("if.dyn", term), fmt.Sprint(g.typeID(types.NewPointer(ht)))),
					sOr(sEq(pObj(v), "0"), sAnd(sEq(app("objtype", pObj(v)), fmt.Sprint(g.typeID(ht))), sEq(pOff(v), g.M.IxLit(0))))))
			}
		}
		return sAnd(cs...)
	}
	return "true"
}

// defineVal declares the SSA value and asserts its definition.
func (g *Gen) defineVal(v ssa.Value, term string) {
	n := g.valName(v)
	g.declare(n, g.sortOf(v.Type()))
	g.assume(sEq(n, term))
}

func (g *Gen) declareVal(v ssa.Value) string {
	return g.declare(g.valName(v), g.sortOf(v.Type()))
}

// ---------- integer arithmetic ----------

func (g *Gen) wrap(x string, t types.Type) string {
	b := t.Underlying().(*types.Basic)
	w, signed := intBits(b)
	m := pow2(w).String()
	if !signed {
		return app("mod", x, m)
	}
	h := pow2(w - 1).String()
	return app("-", app("mod", app("+", x, h), m), h)
}

func isNumLit(s string) bool {
	if s == "" {
		return false
	}
	for _, c := range s {
		if c < '0' || c > '9' {
			return false
		}
	}
	return true
}

func (g *Gen) binop(op string, x, y string, t types.Type, yt types.Type) string {
	if g.M.BV {
		return g.binopBV(op, x, y, t, yt)
	}
	b, _ := t.Underlying().(*types.Basic)
	w, signed := 64, true
	if b != nil {
		w, signed = intBits(b)
	}
	lo, hi := intRange(w, signed)
	m := pow2(w).String()
	switch op {
	case "+", "-":
		s := app(op, x, y)
		if !signed {
			if op == "+" {
				return sIte(app("<=", s, hi.String()), s, app("-", s, m))
			}
			return sIte(app(">=", s, "0"), s, app("+", s, m))
		}
		return sIte(app(">", s, hi.String()), app("-", s, m), sIte(app("<", s, g.M.IntLit(lo, nil)), app("+", s, m), s))
	case "*":
		return g.wrap(app("*", x, y), t)
	case "/":
		if !signed {
			return app("div", x, y)
		}
		return app("tdiv", x, y)
	case "%":
		if !signed {
			return app("mod", x, y)
		}
		return app("tmod", x, y)
	case "&":
		if isNumLit(y) {
			n, _ := new(big.Int).SetString(y, 10)
			n1 := new(big.Int).Add(n, big.NewInt(1))
			if n1.BitLen() > 0 && new(big.Int).And(n1, n).Sign() == 0 && !signed {
				return app("mod", x, n1.String())
			}
		}
		return app("band_int", x, y)
	case "|":
		return app("bor_int", x, y)
	case "^":
		return app("bxor_int", x, y)
	case "&^":
		return app("bandnot_int", x, y)
	case "<<":
		if isNumLit(y) {
			n, _ := new(big.Int).SetString(y, 10)
			if n.Cmp(big.NewInt(int64(w))) >= 0 {
				return "0"
			}
			return g.wrap(app("*", x, pow2(int(n.Int64())).String()), t)
		}
		return g.wrap(app("*", x, app("pow2_int", y)), t)
	case ">>":
		if isNumLit(y) {
			n, _ := new(big.Int).SetString(y, 10)
			if n.Cmp(big.NewInt(int64(w))) >= 0 {
				if signed {
					return sIte(app("<", x, "0"), "(- 1)", "0")
				}
				return "0"
			}
			return app("div", x, pow2(int(n.Int64())).String())
		}
		return app("div", x, app("pow2_int", y))
	}
	panic("binop " + op)
}

func (g *Gen) binopBV(op string, x, y string, t types.Type, yt types.Type) string {
	b := t.Underlying().(*types.Basic)
	w, signed := intBits(b)
	switch op {
	case "+":
		return app("bvadd", x, y)
	case "-":
		return app("bvsub", x, y)
	case "*":
		return app("bvmul", x, y)
	case "/":
		if signed {
			return app("bvsdiv", x, y)
		}
		return app("bvudiv", x, y)
	case "%":
		if signed {
			return app("bvsrem", x, y)
		}
		return app("bvurem", x, y)
	case "&":
		return app("bvand", x, y)
	case "|":
		return app("bvor", x, y)
	case "^":
		return app("bvxor", x, y)
	case "&^":
		return app("bvand", x, app("bvnot", y))
	case "<<", ">>":
		// bring the shift count to width w
		yw := 64
		if yb, ok := yt.Underlying().(*types.Basic); ok {
			if bw, _ := intBits(yb); bw > 0 {
				yw = bw
			}
		}
		cnt := y
		big := "false"
		if yw < w {
			cnt = app(fmt.Sprintf("(_ zero_extend %d)", w-yw), y)
		} else if yw > w {
			cnt = app(fmt.Sprintf("(_ extract %d 0)", w-1), y)
			big = app("bvuge", y, fmt.Sprintf("(_ bv%d %d)", w, yw))
		}
		zero := fmt.Sprintf("(_ bv0 %d)", w)
		if op == "<<" {
			return sIte(big, zero, app("bvshl", x, cnt))
		}
		if signed {
			return sIte(big, app("bvashr", x, fmt.Sprintf("(_ bv%d %d)", w-1, w)), app("bvashr", x, cnt))
		}
		return sIte(big, zero, app("bvlshr", x, cnt))
	}
	panic("binopBV " + op)
}

// eqTerm is equality with Go's nil semantics: a reference is nil iff its object id is 0.
func (g *Gen) eqTerm(x, y string) string {
	for _, pr := range [][2]string{{x, y}, {y, x}} {
		a, b := pr[0], pr[1]
		switch a {
		case nilPtr(g.M):
			return sEq(pObj(b), "0")
		case g.L.Zero("Slice"):
			return sEq(pObj(app("sl.ptr", b)), "0")
		case g.L.Zero("Iface"):
			return sEq(app("if.dyn", b), "0")
		}
	}
	return sEq(x, y)
}

func (g *Gen) cmp(op string, x, y string, t types.Type) string {
	if op == "==" {
		return g.eqTerm(x, y)
	}
	if op == "!=" {
		return sNot(g.eqTerm(x, y))
	}
	if g.M.BV && isInteger(t) {
		_, signed := intBits(t.Underlying().(*types.Basic))
		m := map[string]string{"<": "bvult", "<=": "bvule", ">": "bvugt", ">=": "bvuge"}
		if signed {
			m = map[string]string{"<": "bvslt", "<=": "bvsle", ">": "bvsgt", ">=": "bvsge"}
		}
		return app(m[op], x, y)
	}
	if b, ok := t.Underlying().(*types.Basic); ok && b.Info()&types.IsString != 0 {
		return app("str_lt_"+map[string]string{"<": "lt", "<=": "le", ">": "gt", ">=": "ge"}[op], x, y)
	}
	return app(op, x, y)
}

// convertInt converts integer term x from type ft to type tt.
func (g *Gen) convertInt(x string, ft, tt types.Type) string {
	fb := ft.Underlying().(*types.Basic)
	tb := tt.Underlying().(*types.Basic)
	fw, fs := intBits(fb)
	tw, ts := intBits(tb)
	if g.M.BV {
		switch {
		case tw == fw:
			return x
		case tw < fw:
			return app(fmt.Sprintf("(_ extract %d 0)", tw-1), x)
		default:
			if fs {
				return app(fmt.Sprintf("(_ sign_extend %d)", tw-fw), x)
			}
			return app(fmt.Sprintf("(_ zero_extend %d)", tw-fw), x)
		}
	}
	flo, fhi := intRange(fw, fs)
	tlo, thi := intRange(tw, ts)
	if flo.Cmp(tlo) >= 0 && fhi.Cmp(thi) <= 0 {
		return x // value-preserving
	}
	if fw == tw {
		// same width, signedness changes
		m := pow2(tw).String()
		if ts {
			return sIte(app(">", x, thi.String()), app("-", x, m), x)
		}
		return sIte(app("<", x, "0"), app("+", x, m), x)
	}
	return g.wrap(x, tt)
}


func (g *Gen) sliceElemSize(t types.Type) int64 {
	if st, ok := t.Underlying().(*types.Slice); ok {
		return g.L.Size(st.Elem())
	}
	return 1
}


// isHeapType: t is a named struct type declared "heaptype" (its values only live in objects of their own).
func (g *Gen) isHeapType(t types.Type) bool {
	n, ok := types.Unalias(t).(*types.Named)
	if !ok {
		return false
	}
	name := ShortName(n.String())
	for _, h := range g.DB.HeapTypes {
		if h == name {
			return true
		}
	}
	return false
}


// notInHeapTypes: a pointer to a T cannot point into an object of a heap-only type that contains no T.
func (g *Gen) notInHeapTypes(obj string, t types.Type) string {
	var cs []string
	for _, h := range g.DB.HeapTypes {
		ht := g.lookupNamed(h)
		if ht == nil || typeContains(ht, t, 0) {
			continue
		}
		cs = append(cs, sNot(sEq(app("objtype", obj), fmt.Sprint(g.typeID(ht)))))
	}
	return sAnd(cs...)
}

func typeContains(h, t types.Type, depth int) bool {
	if types.Identical(h, t) || types.Identical(h.Underlying(), t.Underlying()) {
		return true
	}
	if depth > 8 {
		return true
	}
	switch u := h.Underlying().(type) {
	case *types.Struct:
		for i := 0; i < u.NumFields(); i++ {
			if typeContains(u.Field(i).Type(), t, depth+1) {
				return true
			}
		}
	case *types.Array:
		return typeContains(u.Elem(), t, depth+1)
	}
	// cells of identical representation (e.g. a bool field vs *bool) are covered by Identical on the field type
	return false
}
