package vc

import (
	"strconv"
	"runtime"
	"bytes"
	"context"
	"fmt"
	"go/constant"
	"go/types"
	"os"
	"os/exec"
	"path/filepath"
	"strings"
	"sync"
	"time"
)

func Preamble(m Mode) string {
	ix := m.IX()
	var b strings.Builder
	b.WriteString("(set-option :produce-models true)\n(set-logic ALL)\n")
	fmt.Fprintf(&b, "(declare-datatypes ((Ptr 0)) (((mkptr (p.obj Int) (p.off %s)))))\n", ix)
	fmt.Fprintf(&b, "(declare-datatypes ((Slice 0)) (((mksl (sl.ptr Ptr) (sl.len %s) (sl.cap %s)))))\n", ix, ix)
	b.WriteString("(declare-datatypes ((Iface 0)) (((mkif (if.dyn Int) (if.val Ptr)))))\n")
	b.WriteString("(declare-sort Str 0)\n(define-sort Func () Int)\n(define-sort GInt () Int)\n(define-sort GOwn () Int)\n(define-sort GLock () Int)\n(define-sort LInt () Int)\n(define-sort LBool () Bool)\n(define-sort LPtr () Ptr)\n")
	fmt.Fprintf(&b, "(declare-fun slen (Str) %s)\n(declare-fun sat (Str %s) %s)\n(declare-fun sconcat (Str Str) Str)\n", ix, ix, ix)
	if !m.BV {
		b.WriteString("(assert (forall ((a Str) (b Str)) (! (= (slen (sconcat a b)) (+ (slen a) (slen b))) :pattern ((sconcat a b)))))\n")
		b.WriteString("(assert (forall ((a Str)) (! (>= (slen a) 0) :pattern ((slen a)))))\n")
	}
	b.WriteString("(define-fun tdiv ((a Int) (b Int)) Int (ite (>= a 0) (div a b) (- (div (- a) b))))\n")
	b.WriteString("(define-fun tmod ((a Int) (b Int)) Int (- a (* b (tdiv a b))))\n")
	for _, f := range []string{"band_int", "bor_int", "bxor_int", "bandnot_int"} {
		fmt.Fprintf(&b, "(declare-fun %s (Int Int) Int)\n", f)
	}
	b.WriteString("(declare-fun pow2_int (Int) Int)\n")
	b.WriteString("(declare-fun errclass (Iface Int) Bool)\n")
	b.WriteString("(assert (forall ((e Iface) (c Int)) (! (=> (and (= (if.dyn e) c) (> c 0)) (errclass e c)) :pattern ((errclass e c)))))\n")
	b.WriteString("(assert (forall ((e Iface) (c Int)) (! (=> (= (if.dyn e) 0) (not (errclass e c))) :pattern ((errclass e c)))))\n")
	fmt.Fprintf(&b, "(declare-fun objsize (Int) %s)\n", ix)
	b.WriteString("(declare-fun objtype (Int) Int)\n")
	if !m.BV {
		b.WriteString("(declare-fun eo (Int Int) Int)\n(assert (forall ((c Int) (i Int)) (! (= (eo c i) (* c i)) :pattern ((eo c i)))))\n")
	}
	if !m.BV {
		for _, srt := range []string{"Int", "Bool", "Ptr", "Slice", "Iface"} {
			fmt.Fprintf(&b, "(declare-fun touch_%s (%s) Bool)\n(assert (forall ((x %s)) (! (touch_%s x) :pattern ((touch_%s x)))))\n", srt, srt, srt, srt, srt)
		}
	}
	b.WriteString(TheoryPrelude(m))
	return b.String()
}

// Query renders the SMT-LIB text that decides obligation o of r.
// prunePreamble keeps only the theory commands the body needs: a declaration or definition is kept if its
// symbol is (transitively) used, an axiom if it mentions a used theory symbol. The core datatypes are always kept.
func prunePreamble(pre string, body string) string {
	lines := strings.Split(pre, "\n")
	tok := func(s string) []string {
		return strings.FieldsFunc(s, func(r rune) bool {
			return r == '(' || r == ')' || r == ' ' || r == '\t' || r == '\n'
		})
	}
	defined := map[string]int{} // symbol -> line
	for i, ln := range lines {
		if strings.HasPrefix(ln, "(declare-fun ") || strings.HasPrefix(ln, "(define-fun ") || strings.HasPrefix(ln, "(declare-sort ") || strings.HasPrefix(ln, "(define-sort ") || strings.HasPrefix(ln, "(declare-const ") {
			t := tok(ln)
			if len(t) > 1 {
				defined[t[1]] = i
			}
		}
	}
	used := map[string]bool{}
	for _, t := range tok(body) {
		if _, ok := defined[t]; ok {
			used[t] = true
		}
	}
	keep := make([]bool, len(lines))
	changed := true
	for changed {
		changed = false
		for i, ln := range lines {
			if keep[i] || ln == "" {
				continue
			}
			isDef := strings.HasPrefix(ln, "(declare-fun ") || strings.HasPrefix(ln, "(define-fun ") || strings.HasPrefix(ln, "(declare-sort ") || strings.HasPrefix(ln, "(define-sort ") || strings.HasPrefix(ln, "(declare-const ")
			t := tok(ln)
			need := false
			if isDef {
				need = used[t[1]]
			} else if strings.HasPrefix(ln, "(assert") {
				// a quantified axiom fires only through its triggers: it is needed when all theory symbols of one of its
				// trigger alternatives are in use; a fact without such triggers is needed when it mentions a used symbol
				alts := patternSymbols(ln, defined)
				if len(alts) > 0 {
					for _, alt := range alts {
						all := true
						for _, x := range alt {
							if !used[x] {
								all = false
								break
							}
						}
						if all {
							need = true
							break
						}
					}
				} else {
					for _, x := range t {
						if used[x] {
							need = true
							break
						}
					}
				}
			} else {
				need = true // options, datatypes
			}
			if need {
				keep[i] = true
				changed = true
				for _, x := range t {
					if _, ok := defined[x]; ok && !used[x] {
						used[x] = true
					}
				}
			}
		}
	}
	var out []string
	for i, ln := range lines {
		if keep[i] {
			out = append(out, ln)
		}
	}
	return strings.Join(out, "\n") + "\n"
}

// patternSymbols returns, for each `:pattern (...)` group of an axiom that mentions at least one theory symbol, the
// theory symbols it mentions (groups made of built-in symbols only belong to inner quantifiers over arrays).
func patternSymbols(ln string, defined map[string]int) [][]string {
	var out [][]string
	rest := ln
	for {
		i := strings.Index(rest, ":pattern (")
		if i < 0 {
			break
		}
		rest = rest[i+len(":pattern "):]
		depth, end := 0, -1
		for k := 0; k < len(rest); k++ {
			if rest[k] == '(' {
				depth++
			} else if rest[k] == ')' {
				depth--
				if depth == 0 {
					end = k
					break
				}
			}
		}
		if end < 0 {
			break
		}
		grp := rest[:end+1]
		var syms []string
		for _, tk := range strings.FieldsFunc(grp, func(r rune) bool { return r == '(' || r == ')' || r == ' ' }) {
			if _, ok := defined[tk]; ok {
				syms = append(syms, tk)
			}
		}
		if len(syms) > 0 {
			out = append(out, syms)
		}
		rest = rest[end:]
	}
	return out
}

func (r *FuncResult) Query(o *Obl, getModel bool) string {
	var body strings.Builder
	for _, d := range r.Decls {
		body.WriteString(d)
		body.WriteByte('\n')
	}
	for _, c := range r.Cmds[:o.Prefix] {
		body.WriteString(c)
		body.WriteByte('\n')
	}
	for _, d := range o.Local {
		body.WriteString(d)
		body.WriteByte('\n')
	}
	body.WriteString(o.Goal)
	var b strings.Builder
	pre := Preamble(r.Mode)
	if r.NoLemmas {
		noLemmasMu.Lock()
		noLemmas = true
		pre = Preamble(r.Mode)
		noLemmas = false
		noLemmasMu.Unlock()
	} else {
		noLemmasMu.Lock()
		pre = Preamble(r.Mode)
		noLemmasMu.Unlock()
	}
	b.WriteString(prunePreamble(pre, body.String()))
	for _, d := range r.Decls {
		b.WriteString(d)
		b.WriteByte('\n')
	}
	for _, c := range r.Cmds[:o.Prefix] {
		b.WriteString(c)
		b.WriteByte('\n')
	}
	for _, d := range o.Local {
		b.WriteString(d)
		b.WriteByte('\n')
	}
	fmt.Fprintf(&b, "(assert (not %s))\n(check-sat)\n", o.Goal)
	if getModel {
		b.WriteString("(get-model)\n")
	}
	return b.String()
}

type Solver struct {
	Name string
	Args func(file string, timeout time.Duration) []string
}

var Solvers = []Solver{
	{"z3-new", func(f string, t time.Duration) []string {
		return []string{"z3-new", fmt.Sprintf("-T:%d", int(t.Seconds())+1), fmt.Sprintf("-t:%d", t.Milliseconds()), f}
	}},
	{"z3", func(f string, t time.Duration) []string {
		return []string{"z3", fmt.Sprintf("-T:%d", int(t.Seconds())+1), fmt.Sprintf("-t:%d", t.Milliseconds()), f}
	}},
	{"cvc5", func(f string, t time.Duration) []string {
		return []string{"cvc5", fmt.Sprintf("--tlimit=%d", t.Milliseconds()), f}
	}},
}

var noLemmasMu sync.Mutex

type solveOut struct {
	solver string
	status string // unsat, sat, unknown, timeout, error
	out    string
	secs   float64
}

func runSolver(ctx context.Context, s Solver, file string, timeout time.Duration) solveOut {
	args := s.Args(file, timeout)
	ctx2, cancel := context.WithTimeout(ctx, timeout+3*time.Second)
	defer cancel()
	cmd := exec.CommandContext(ctx2, args[0], args[1:]...)
	var out bytes.Buffer
	cmd.Stdout = &out
	cmd.Stderr = &out
	t0 := time.Now()
	_ = cmd.Run()
	secs := time.Since(t0).Seconds()
	text := out.String()
	first := strings.TrimSpace(strings.SplitN(text, "\n", 2)[0])
	st := "error"
	switch {
	case first == "unsat":
		st = "unsat"
	case first == "sat":
		st = "sat"
	case first == "unknown":
		st = "unknown"
	case strings.Contains(first, "timeout") || ctx2.Err() != nil || strings.Contains(text, "interrupted"):
		st = "timeout"
	}
	return solveOut{s.Name, st, text, secs}
}

type SolveStats struct {
	mu        sync.Mutex
	BySolver  map[string]int
	Seconds   float64
	Queries   int
}

// Discharge decides all obligations of r in parallel. dir is a scratch directory.
func Discharge(rs []*FuncResult, dir string, timeout time.Duration, workers int, stats *SolveStats) {
	type job struct {
		r *FuncResult
		o *Obl
		i int
	}
	var jobs []job
	for _, r := range rs {
		for i, o := range r.Obls {
			if o.Presolved {
				continue
			}
			jobs = append(jobs, job{r, o, i})
		}
	}
	ch := make(chan job)
	var wg sync.WaitGroup
	for w := 0; w < workers; w++ {
		wg.Add(1)
		go func(w int) {
			defer wg.Done()
			for j := range ch {
				file := filepath.Join(dir, fmt.Sprintf("q%d_%s_%d.smt2", w, sanitize(shortKey(j.r.Key)), j.i))
				os.WriteFile(file, []byte(j.r.Query(j.o, true)), 0o644)
				decide(j.o, file, timeout, stats)
				if j.o.Result == "unsat" || (j.o.Canary && j.o.Result != "unsat") {
					os.Remove(file)
				}
			}
		}(w)
	}
	for _, j := range jobs {
		ch <- j
	}
	close(ch)
	wg.Wait()
}

func decide(o *Obl, file string, timeout time.Duration, stats *SolveStats) {
	ctx := context.Background()
	if o.Long {
		timeout *= 4
	}
	record := func(so solveOut) {
		stats.mu.Lock()
		stats.Queries++
		stats.Seconds += so.secs
		stats.mu.Unlock()
	}
	// a machine that is busy with other work gets proportionally longer budgets (a timeout is not a refutation)
	lf := loadFactor()
	timeout = time.Duration(float64(timeout) * lf)
	// first attempt: z3-new with a short budget
	first := timeout
	if first > time.Duration(float64(3*time.Second)*lf) {
		first = time.Duration(float64(3*time.Second) * lf)
	}
	if o.Canary {
		// a vacuity canary only has to fail to be proved: a short budget is enough
		first = 1500 * time.Millisecond
		_ = lf
	}
	so := runSolver(ctx, Solvers[0], file, first)
	record(so)
	o.Seconds += so.secs
	if so.status == "unsat" || so.status == "sat" || o.Canary {
		o.Result, o.Solver = so.status, so.solver
		if so.status == "sat" || so.status == "error" {
			o.Model = so.out
		}
		if so.status == "unsat" {
			stats.mu.Lock()
			stats.BySolver[so.solver]++
			stats.mu.Unlock()
		}
		return
	}
	// race all three with the full budget
	ctx2, cancel := context.WithCancel(ctx)
	defer cancel()
	res := make(chan solveOut, len(Solvers))
	for _, s := range Solvers {
		go func(s Solver) { res <- runSolver(ctx2, s, file, timeout) }(s)
	}
	best := so
	for range Solvers {
		r := <-res
		record(r)
		o.Seconds += r.secs
		if r.status == "unsat" {
			o.Result, o.Solver = "unsat", r.solver
			stats.mu.Lock()
			stats.BySolver[r.solver]++
			stats.mu.Unlock()
			cancel()
			return
		}
		if r.status == "sat" && best.status != "sat" {
			best = r
		}
	}
	o.Result, o.Solver = best.status, best.solver
	if best.status == "sat" || best.status == "error" {
		o.Model = best.out
	}
	if o.Result == "unknown" || o.Result == "timeout" {
		// candidate counterexample: drop the quantified assumptions (weaker context) and ask for a model
		b, err := os.ReadFile(file)
		if err == nil {
			var keep []string
			for _, ln := range strings.Split(string(b), "\n") {
				if strings.HasPrefix(ln, "(assert") && strings.Contains(ln, "(forall ") && !strings.HasPrefix(ln, "(assert (not ") {
					continue
				}
				keep = append(keep, ln)
			}
			wf := file + ".weak.smt2"
			os.WriteFile(wf, []byte(strings.Join(keep, "\n")), 0o644)
			w := runSolver(ctx, Solvers[0], wf, 3*time.Second)
			record(w)
			if w.status == "sat" {
				o.Model = ";; candidate model (quantified assumptions dropped)\n" + w.out
				o.Candidate = true
			}
			os.Remove(wf)
		}
	}
}


// Retry re-runs the obligations that were not discharged, a few at a time and with a longer budget,
// so that a slow machine or a loaded one does not turn into an alarm.
func Retry(rs []*FuncResult, dir string, timeout time.Duration, stats *SolveStats) int {
	type job struct {
		r *FuncResult
		o *Obl
		i int
	}
	var jobs []job
	for _, r := range rs {
		for i, o := range r.Obls {
			if !o.Canary && o.Result != "unsat" && o.Result != "sat" && o.Result != "error" {
				jobs = append(jobs, job{r, o, i})
			}
		}
	}
	if len(jobs) == 0 || len(jobs) > 200 {
		return 0
	}
	ch := make(chan job)
	var wg sync.WaitGroup
	for w := 0; w < 4; w++ {
		wg.Add(1)
		go func(w int) {
			defer wg.Done()
			for j := range ch {
				file := filepath.Join(dir, fmt.Sprintf("r%d_%s_%d.smt2", w, sanitize(shortKey(j.r.Key)), j.i))
				q := j.r.Query(j.o, true)
				q = strings.Replace(q, "(set-logic ALL)", "(set-logic ALL)\n(set-option :random-seed 7)", 1)
				os.WriteFile(file, []byte(q), 0o644)
				j.o.Result, j.o.Model = "", ""
				decide(j.o, file, timeout, stats)
				j.o.Retried = true
				os.Remove(file)
			}
		}(w)
	}
	for _, j := range jobs {
		ch <- j
	}
	close(ch)
	wg.Wait()
	return len(jobs)
}


// LemmaObligations returns one pseudo-function per mode holding the lemma obligations of property prop.
// StringSeparationLemma: no domain tag makes the signature ciphersuite key equal to the proof-of-possession one
// (the two constants are read from the type-checked package).
func StringSeparationLemma(P *Program) *Lemma {
	sp := P.SPkgs[ModPath]
	if sp == nil {
		return nil
	}
	get := func(n string) (string, bool) {
		c, ok := sp.Pkg.Scope().Lookup(n).(*types.Const)
		if !ok {
			return "", false
		}
		return constant.StringVal(c.Val()), true
	}
	sig, ok1 := get("blsSigCipherSuite")
	pop, ok2 := get("blsPOPCipherSuite")
	if !ok1 || !ok2 {
		return nil
	}
	return &Lemma{Name: "no-tag-maps-the-signature-suite-onto-the-pop-suite", Props: []string{"C16"}, NoAssert: true,
		SMT: fmt.Sprintf("(forall ((t String)) (not (= (str.++ t %q) %q)))", sig, pop)}
}

func LemmaObligations(prop string) []*FuncResult { return LemmaObligationsFor(prop, nil) }

// LemmaObligationsFor also selects the lemmas whose theory symbols occur in the verification conditions of rs.
func LemmaObligationsFor(prop string, rs []*FuncResult) []*FuncResult {
	usedSym := func(sym string) bool {
		for _, r := range rs {
			for _, c := range r.Cmds {
				if strings.Contains(c, "("+sym+" ") {
					return true
				}
			}
			for _, o := range r.Obls {
				if strings.Contains(o.Goal, "("+sym+" ") {
					return true
				}
			}
		}
		return false
	}
	var out []*FuncResult
	for _, bv := range []bool{false, true} {
		r := &FuncResult{Key: "theory-lemmas", Mode: Mode{BV: bv}, Pos: "engine/internal/vc/theory.go", NoLemmas: true}
		for _, l := range Lemmas {
			if l.BV != bv {
				continue
			}
			use := prop == ""
			for _, p := range l.Props {
				if p == prop {
					use = true
				}
			}
			for _, sym := range l.Uses {
				if !use && usedSym(sym) {
					use = true
				}
			}
			if use && len(l.Steps) > 0 {
				for _, st := range l.Steps {
					r.Obls = append(r.Obls, &Obl{Name: "lemma:" + l.Name + ":" + st.Name, Kind: "lemma", Func: r.Key, Goal: st.Goal, Pos: r.Pos, Local: st.Decls})
				}
			} else if use {
				r.Obls = append(r.Obls, &Obl{Name: "lemma:" + l.Name, Kind: "lemma", Func: r.Key, Goal: l.SMT, Pos: r.Pos})
			}
		}
		if len(r.Obls) > 0 {
			out = append(out, r)
		}
	}
	return out
}


// VacuousCanaries returns the canaries of one function that count as vacuity failures. Entry and loop canaries must be
// reachable. Return canaries: the contract may declare returns unreachable (dead-return N, numbered in source order);
// as many returns may be unreachable as are declared, whichever they are (an inserted or removed return shifts the
// ordinals without making anything vacuous); every unreachable return beyond that number is reported, undeclared ones first.
func VacuousCanaries(r *FuncResult) []*Obl {
	var bad, deadDeclared, deadOther []*Obl
	declared := 0
	for _, o := range r.Obls {
		if !o.Canary {
			continue
		}
		if o.ExpectDead {
			declared++
		}
		if o.Result != "unsat" {
			continue
		}
		switch {
		case !strings.Contains(o.Name, ":canary:return"):
			bad = append(bad, o)
		case o.ExpectDead:
			deadDeclared = append(deadDeclared, o)
		default:
			deadOther = append(deadOther, o)
		}
	}
	extra := len(deadDeclared) + len(deadOther) - declared
	for i := 0; i < extra && i < len(deadOther); i++ {
		bad = append(bad, deadOther[i])
	}
	return bad
}


// loadFactor: 1 on an idle machine; load average / number of CPUs when the machine is oversubscribed (capped at 8).
// The solver processes of this run alone (12 workers) do not oversubscribe a 16-core machine.
func loadFactor() float64 {
	b, err := os.ReadFile("/proc/loadavg")
	if err != nil {
		return 1
	}
	f := strings.Fields(string(b))
	if len(f) == 0 {
		return 1
	}
	l, err := strconv.ParseFloat(f[0], 64)
	if err != nil {
		return 1
	}
	n := float64(runtime.NumCPU())
	if n < 1 {
		n = 1
	}
	x := l / n
	if x < 1 {
		return 1
	}
	if x > 8 {
		return 8
	}
	return x
}
