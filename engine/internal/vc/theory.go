package vc

import (
	"fmt"
	"go/types"
	"strings"

	"golang.org/x/tools/go/ssa"
)

type ssaGlobal = ssa.Global

// TheoryFn is a spec-level function usable in contracts.
type TheoryFn struct {
	SMT     string
	Args    []string
	Ret     string   // result sort in int mode
	RetBV   string   // result sort in bv mode ("" = same)
	RetT    types.Type
	HeapArg string // "byte": the current byte heap is passed as first argument
}

var Theory = map[string]TheoryFn{}

var typU64 = types.Typ[types.Uint64]

func init() {
	Theory["le64"] = TheoryFn{SMT: "le64", HeapArg: "byte", Ret: "Int", RetBV: "(_ BitVec 64)", RetT: typU64}
	Theory["le64z"] = TheoryFn{SMT: "le64z", HeapArg: "byte", Ret: "Int", RetBV: "(_ BitVec 64)", RetT: typU64}
	Theory["be64"] = TheoryFn{SMT: "be64", HeapArg: "byte", Ret: "Int", RetBV: "(_ BitVec 64)", RetT: typU64}
	// smear(x): the smallest 2^b-1 >= x (all bits below the top set bit of x set); bv mode only
	Theory["smear"] = TheoryFn{SMT: "smear64", Ret: "Int", RetBV: "(_ BitVec 64)", RetT: typU64}
	// g2vecValid(bytes, n): the 96n bytes at the start of the slice are canonical encodings of n points of G2 (int mode)
	Theory["g2vecValid"] = TheoryFn{SMT: "g2vecValid", HeapArg: "byte", Ret: "Bool", RetT: types.Typ[types.Bool]}
	// big-endian bytes of a 64-bit value (int mode): bebyte(v, m) is byte m (0 = most significant), bytelen(v) the
	// minimal number of bytes (at least 1) -- the "n" of SP 800-185 left_encode / right_encode
	Theory["bebyte"] = TheoryFn{SMT: "bebyte", Ret: "Int", RetT: types.Typ[types.Uint8]}
	Theory["bytelen"] = TheoryFn{SMT: "bytelen", Ret: "Int", RetT: typInt}
	// cSHAKE / KMAC (int mode): abstract sponge states of x/crypto's ShakeHash
	Theory["seqid"] = TheoryFn{SMT: "seqid", HeapArg: "byte", Ret: "Int", RetT: typInt}
	Theory["rencSeq"] = TheoryFn{SMT: "rencSeq", Ret: "Int", RetT: typInt}
	Theory["cshakeNew"] = TheoryFn{SMT: "cshakeNew", Ret: "Int", RetT: typInt}
	Theory["shAbsorb"] = TheoryFn{SMT: "shAbsorb", Ret: "Int", RetT: typInt}
	Theory["shInit"] = TheoryFn{SMT: "shInit", Ret: "Int", RetT: typInt}
	Theory["shOut"] = TheoryFn{SMT: "shOut", Ret: "Int", RetT: types.Typ[types.Uint8]}
	// BLS12-381 field / curve layer (int mode). Field elements are integers (raw limbs), the Montgomery-form
	// operations of BLST are uninterpreted functions; be48/be32 are big-endian byte strings as integers.
	Theory["be48"] = TheoryFn{SMT: "be48", HeapArg: "byte", Ret: "Int", RetT: typInt}
	Theory["be32"] = TheoryFn{SMT: "be32", HeapArg: "byte", Ret: "Int", RetT: typInt}
	Theory["le32"] = TheoryFn{SMT: "le32", HeapArg: "byte", Ret: "Int", RetT: typInt}
	Theory["be16"] = TheoryFn{SMT: "be16", HeapArg: "byte", Ret: "Int", RetT: typInt}
	Theory["FpP"] = TheoryFn{SMT: "FpP", Ret: "Int", RetT: typInt}
	Theory["FrR"] = TheoryFn{SMT: "FrR", Ret: "Int", RetT: typInt}
	for _, f := range []string{"fpToMont", "fpFromMont", "fpSquM", "fpNegM", "fpSqrtM", "fpSgn", "fp2SquM", "fp2NegM", "fp2SqrtM", "fp2Sgn", "fp2c0", "fp2c1",
		"frToMont", "frFromMont", "frNeg", "frInvM", "e1Affine", "e2Affine", "e1Neg", "e2Neg", "g1mulgen", "g2mulgen", "g2mulJ", "h2c", "dl1", "dl2", "mapFr"} {
		Theory[f] = TheoryFn{SMT: f, Ret: "Int", RetT: typInt}
	}
	for _, f := range []string{"fpAddM", "fpMulM", "fp2AddM", "fp2MulM", "fp2c", "frAdd", "frSub", "frMulM", "e1Add", "e2Add", "e1Mul", "e2Mul", "e2MulSmall"} {
		Theory[f] = TheoryFn{SMT: f, Ret: "Int", RetT: typInt}
	}
	for _, f := range []string{"e1x", "e1y", "e1z", "e2x", "e2y", "e2z"} {
		Theory[f] = TheoryFn{SMT: f, Ret: "Int", RetT: typInt}
	}
	// -g2 (the library constant BLS12_381_minus_g2), pairing product of two pairs, and its test against 1
	Theory["negG2"] = TheoryFn{SMT: "negG2", Ret: "Int", RetT: typInt}
	Theory["c_BLS12_381_minus_g2"] = TheoryFn{SMT: "negG2", Ret: "Int", RetT: typInt}
	Theory["mp2"] = TheoryFn{SMT: "mp2", Ret: "Int", RetT: typInt}
	Theory["fp12IsOne"] = TheoryFn{SMT: "fp12IsOne", Ret: "Bool", RetT: types.Typ[types.Bool]}
	Theory["h2cb"] = TheoryFn{SMT: "h2cb", HeapArg: "byte", Ret: "Int", RetT: typInt}
	// hashers as functions: hout(cfg, x) is the digest (as an abstract byte sequence) of input x under configuration cfg;
	// h2cd(d) the hash-to-curve image of digest d; kmacCfg(key, customizer, size) the configuration of a KMAC128 instance
	Theory["hout"] = TheoryFn{SMT: "hout", Ret: "Int", RetT: typInt}
	Theory["h2cd"] = TheoryFn{SMT: "h2cd", Ret: "Int", RetT: typInt}
	Theory["kmacCfg"] = TheoryFn{SMT: "kmacCfg", Ret: "Int", RetT: typInt}
	Theory["e1Inf"] = TheoryFn{SMT: "e1Inf", Ret: "Int", RetT: typInt}
	Theory["e2Inf"] = TheoryFn{SMT: "e2Inf", Ret: "Int", RetT: typInt}
	Theory["e1c"] = TheoryFn{SMT: "e1c", Ret: "Int", RetT: typInt}
	Theory["e2c"] = TheoryFn{SMT: "e2c", Ret: "Int", RetT: typInt}
	for _, f := range []string{"fpSqrtOk", "fp2SqrtOk", "e1OnCurve", "e2OnCurve", "e1IsInf", "e2IsInf", "inG1", "inG2", "e1Eq", "e2Eq"} {
		Theory[f] = TheoryFn{SMT: f, Ret: "Bool", RetT: types.Typ[types.Bool]}
	}
	// ECDSA layer (int mode): big integers are ghost mathematical values; the curves are two constant interface values;
	// ecdsaEq is the ECDSA verification equation of the standard library (on the leftmost bits of the digest), ecdsaSigOf
	// what crypto/ecdsa.Sign returns, pubOf the public point of a private scalar, hkdfSha256 the HKDF-SHA256 output.
	// treeOK(n, len): well-formed aggregation tree of the batch verification (see foldTheory)
	Theory["treeOK"] = TheoryFn{SMT: "treeOK", HeapArg: "Ptr", Ret: "Bool", RetT: types.Typ[types.Bool]}
	Theory["treeOKU"] = TheoryFn{SMT: "treeOKU", HeapArg: "Ptr", Ret: "Bool", RetT: types.Typ[types.Bool]}
	// rnd(d, k): byte k of the d-th draw from the system's random source (crypto/rand)
	Theory["rnd"] = TheoryFn{SMT: "rnd", Ret: "Int", RetT: types.Typ[types.Uint8]}
	Theory["benat"] = TheoryFn{SMT: "benat", HeapArg: "byte", Ret: "Int", RetT: typInt}
	Theory["be32v"] = TheoryFn{SMT: "be32v", HeapArg: "byte", Ret: "Int", RetT: typInt}
	Theory["p256c"] = TheoryFn{SMT: "p256c", Ret: "Iface"}
	Theory["s256c"] = TheoryFn{SMT: "s256c", Ret: "Iface"}
	Theory["s256p"] = TheoryFn{SMT: "s256p", Ret: "Ptr"}
	for _, f := range []string{"curveN", "curveP", "curveBits", "bitlen", "pubX", "pubY", "hkdfSha256", "hkdfNat", "decompY", "seqcat", "seqEmpty", "hashOf"} {
		Theory[f] = TheoryFn{SMT: f, Ret: "Int", RetT: typInt}
	}
	for _, f := range []string{"ecdsaEq", "ecdsaSigOf", "onCurve", "compressedOK"} {
		Theory[f] = TheoryFn{SMT: f, Ret: "Bool", RetT: types.Typ[types.Bool]}
	}
	// ChaCha20 (int mode only): ks(sid, i) is byte i of the keystream of stream sid;
	// chachaStream(key, nonce) names the stream of a 32-byte key and a 12-byte nonce by their contents.
	Theory["ks"] = TheoryFn{SMT: "ks", Ret: "Int", RetT: types.Typ[types.Uint8]}
	Theory["xor8"] = TheoryFn{SMT: "xor8", Ret: "Int", RetT: types.Typ[types.Uint8]}
	Theory["chachaStream"] = TheoryFn{SMT: "chachaStream", HeapArg: "byte", Ret: "Int", RetT: typInt}
}

// TheoryPrelude returns the SMT-LIB declarations of the spec-level theories for mode m.
func TheoryPrelude(m Mode) string {
	var b strings.Builder
	ix := m.IX()
	if m.BV {
		hs := "(Array Int (Array (_ BitVec 64) (_ BitVec 8)))"
		byteAt := func(k int) string {
			return fmt.Sprintf("(select (select h (p.obj (sl.ptr s))) (bvadd (p.off (sl.ptr s)) (_ bv%d 64)))", k)
		}
		// little endian: byte 0 is least significant -> last in concat
		var le, be, lez []string
		for k := 7; k >= 0; k-- {
			le = append(le, byteAt(k))
			lez = append(lez, fmt.Sprintf("(ite (bvslt (_ bv%d 64) n) %s (_ bv0 8))", k, byteAt(k)))
		}
		for k := 0; k < 8; k++ {
			be = append(be, byteAt(k))
		}
		fmt.Fprintf(&b, "(define-fun le64 ((h %s) (s Slice)) (_ BitVec 64) (concat %s))\n", hs, strings.Join(le, " "))
		fmt.Fprintf(&b, "(define-fun be64 ((h %s) (s Slice)) (_ BitVec 64) (concat %s))\n", hs, strings.Join(be, " "))
		fmt.Fprintf(&b, "(define-fun le64z ((h %s) (s Slice) (n %s)) (_ BitVec 64) (concat %s))\n", hs, ix, strings.Join(lez, " "))
		b.WriteString("(define-fun smear64 ((x (_ BitVec 64))) (_ BitVec 64) (let ((a (bvor x (bvlshr x (_ bv1 64))))) (let ((b (bvor a (bvlshr a (_ bv2 64))))) (let ((c (bvor b (bvlshr b (_ bv4 64))))) (let ((d (bvor c (bvlshr c (_ bv8 64))))) (let ((e (bvor d (bvlshr d (_ bv16 64))))) (bvor e (bvlshr e (_ bv32 64)))))))))\n")
	} else {
		hs := "(Array Int (Array Int Int))"
		byteAt := func(k int) string {
			return fmt.Sprintf("(select (select h (p.obj (sl.ptr s))) (+ (p.off (sl.ptr s)) %d))", k)
		}
		var le, be, lez []string
		for k := 0; k < 8; k++ {
			le = append(le, fmt.Sprintf("(* %s %s)", pow2(8*k).String(), byteAt(k)))
			be = append(be, fmt.Sprintf("(* %s %s)", pow2(8*(7-k)).String(), byteAt(k)))
			lez = append(lez, fmt.Sprintf("(ite (< %d n) (* %s %s) 0)", k, pow2(8*k).String(), byteAt(k)))
		}
		fmt.Fprintf(&b, "(define-fun le64 ((h %s) (s Slice)) Int (+ %s))\n", hs, strings.Join(le, " "))
		fmt.Fprintf(&b, "(define-fun be64 ((h %s) (s Slice)) Int (+ %s))\n", hs, strings.Join(be, " "))
		fmt.Fprintf(&b, "(define-fun le64z ((h %s) (s Slice) (n Int)) Int (+ %s))\n", hs, strings.Join(lez, " "))
		b.WriteString("(declare-fun smear64 (Int) Int)\n")
		pw := "1"
		for m := 6; m >= 0; m-- {
			pw = fmt.Sprintf("(ite (= m %d) %s %s)", m, pow2(8*(7-m)).String(), pw)
		}
		fmt.Fprintf(&b, "(declare-fun bebyte (Int Int) Int)\n(assert (forall ((v Int) (m Int)) (! (= (bebyte v m) (mod (div v %s) 256)) :pattern ((bebyte v m)))))\n", pw)
		bl := "8"
		for n := 7; n >= 1; n-- {
			bl = fmt.Sprintf("(ite (< v %s) %d %s)", pow2(8*n).String(), n, bl)
		}
		fmt.Fprintf(&b, "(declare-fun bytelen (Int) Int)\n(assert (forall ((v Int)) (! (= (bytelen v) %s) :pattern ((bytelen v)))))\n", bl)
		// sequences of bytes as abstract values: short ones (<= 9 bytes) by content, longer ones by location
		b.WriteString("(declare-fun seq9 (Int Int Int Int Int Int Int Int Int Int) Int)\n(declare-fun seqidA ((Array Int Int) Int Int) Int)\n")
		var sb []string
		for k := 0; k < 9; k++ {
			sb = append(sb, fmt.Sprintf("(ite (< %d (sl.len s)) (select (select h (p.obj (sl.ptr s))) (+ (p.off (sl.ptr s)) %d)) 0)", k, k))
		}
		fmt.Fprintf(&b, "(define-fun seqid ((h %s) (s Slice)) Int (ite (<= (sl.len s) 9) (seq9 (sl.len s) %s) (seqidA (select h (p.obj (sl.ptr s))) (p.off (sl.ptr s)) (sl.len s))))\n", hs, strings.Join(sb, " "))
		var rb []string
		for k := 0; k < 9; k++ {
			rb = append(rb, fmt.Sprintf("(ite (< %d (bytelen v)) (bebyte v (+ (- 8 (bytelen v)) %d)) (ite (= %d (bytelen v)) (bytelen v) 0))", k, k, k))
		}
		fmt.Fprintf(&b, "(define-fun rencSeq ((v Int)) Int (seq9 (+ (bytelen v) 1) %s))\n", strings.Join(rb, " "))
		// seqidA names a byte sequence by its CONTENT: equal bytes, equal name (assumed: this is what the symbol stands for;
		// a model is any injective encoding of finite byte strings as integers)
		b.WriteString("(assert (forall ((a (Array Int Int)) (oa Int) (b (Array Int Int)) (ob Int) (n Int)) (! (=> (forall ((q Int)) (! (=> (and (<= oa q) (< q (+ oa n))) (= (select a q) (select b (+ (- q oa) ob)))) :pattern ((select a q)))) (= (seqidA a oa n) (seqidA b ob n))) :pattern ((seqidA a oa n) (seqidA b ob n)))))\n")
		b.WriteString("(declare-fun seqOfStr (Str) Int)\n(declare-fun strOfSeq (Int) Str)\n")
		b.WriteString("(assert (forall ((s Int)) (! (= (seqOfStr (strOfSeq s)) s) :pattern ((strOfSeq s)))))\n")
		// BLS12-381 layer
		var t48, t32 []string
		for k := 0; k < 48; k++ {
			t48 = append(t48, fmt.Sprintf("(* %s (select (select h (p.obj (sl.ptr s))) (+ (p.off (sl.ptr s)) %d)))", pow2(8*(47-k)).String(), k))
		}
		for k := 0; k < 32; k++ {
			t32 = append(t32, fmt.Sprintf("(* %s (select (select h (p.obj (sl.ptr s))) (+ (p.off (sl.ptr s)) %d)))", pow2(8*(31-k)).String(), k))
		}
		// big-endian values: the leading byte is explicit (flag bits live there), the remaining bytes enter through an
		// uninterpreted function with its range (equalities then follow by congruence instead of big-number arithmetic)
		byteArg := func(k int) string {
			return fmt.Sprintf("(select (select h (p.obj (sl.ptr s))) (+ (p.off (sl.ptr s)) %d))", k)
		}
		mkBE := func(name string, n int) {
			var sorts, args, vars, vnames []string
			for k := 1; k < n; k++ {
				sorts = append(sorts, "Int")
				args = append(args, byteArg(k))
				vars = append(vars, fmt.Sprintf("(b%d Int)", k))
				vnames = append(vnames, fmt.Sprintf("b%d", k))
			}
			low := fmt.Sprintf("%slow", name)
			fmt.Fprintf(&b, "(declare-fun %s (%s) Int)\n", low, strings.Join(sorts, " "))
			fmt.Fprintf(&b, "(assert (forall (%s) (! (and (<= 0 (%s %s)) (< (%s %s) %s)) :pattern ((%s %s)))))\n", strings.Join(vars, " "), low, strings.Join(vnames, " "), low, strings.Join(vnames, " "), pow2(8*(n-1)).String(), low, strings.Join(vnames, " "))
			fmt.Fprintf(&b, "(define-fun %s ((h %s) (s Slice)) Int (+ (* %s %s) (%s %s)))\n", name, hs, pow2(8*(n-1)).String(), byteArg(0), low, strings.Join(args, " "))
		}
		_ = t48
		_ = t32
		mkBE("be48", 48)
		mkBE("be32", 32)
		mkBE("be16", 16)
		{
			var sorts, args []string
			for k := 0; k < 32; k++ {
				sorts = append(sorts, "Int")
				args = append(args, byteArg(k))
			}
			fmt.Fprintf(&b, "(declare-fun le32f (%s) Int)\n", strings.Join(sorts, " "))
			fmt.Fprintf(&b, "(define-fun le32 ((h %s) (s Slice)) Int (le32f %s))\n", hs, strings.Join(args, " "))
		}
		b.WriteString("(define-fun FpP () Int 4002409555221667393417789825735904156556882819939007885332058136124031650490837864442687629129015664037894272559787)\n")
		b.WriteString("(define-fun FrR () Int 52435875175126190479447740508185965837690552500527637822603658699938581184513)\n")
		for _, f := range []string{"fpToMont", "fpFromMont", "fpSquM", "fpNegM", "fpSqrtM", "fpSgn", "fp2SquM", "fp2NegM", "fp2SqrtM", "fp2Sgn", "fp2c0", "fp2c1",
			"frToMont", "frFromMont", "frNeg", "frInvM", "e1Affine", "e2Affine", "e1Neg", "e2Neg", "g1mulgen", "g2mulJ", "h2c", "dl1", "dl2", "mapFr"} {
			fmt.Fprintf(&b, "(declare-fun %s (Int) Int)\n", f)
		}
		b.WriteString("(define-fun g2mulgen ((x Int)) Int (e2Affine (g2mulJ x)))\n")
		for _, f := range []string{"fpAddM", "fpMulM", "fp2AddM", "fp2MulM", "fp2c", "frAdd", "frSub", "frMulM", "e1Add", "e2Add", "e1Mul", "e2Mul"} {
			fmt.Fprintf(&b, "(declare-fun %s (Int Int) Int)\n", f)
		}
		b.WriteString("(declare-fun e1c (Int Int Int) Int)\n(declare-fun e2c (Int Int Int) Int)\n")
		for _, f := range []string{"fpSqrtOk", "fp2SqrtOk", "e1OnCurve", "e2OnCurve", "e1IsInf", "e2IsInf", "inG1", "inG2"} {
			fmt.Fprintf(&b, "(declare-fun %s (Int) Bool)\n", f)
		}
		b.WriteString("(declare-fun e1Eq (Int Int) Bool)\n(declare-fun e2Eq (Int Int) Bool)\n")
		// E1/E2_is_equal compare group elements, not representations: equality is reflexive and blind to the
		// projective-to-affine conversion (assumed properties of BLST's POINTonE*_is_equal / from_Jacobian)
		for _, c := range []string{"1", "2"} {
			fmt.Fprintf(&b, "(assert (forall ((p Int)) (! (e%sEq p p) :pattern ((e%sEq p p)))))\n", c, c)
			fmt.Fprintf(&b, "(assert (forall ((p Int) (q Int)) (! (= (e%sEq (e%sAffine p) q) (e%sEq p q)) :pattern ((e%sEq (e%sAffine p) q)))))\n", c, c, c, c, c)
			fmt.Fprintf(&b, "(assert (forall ((p Int) (q Int)) (! (= (e%sEq p (e%sAffine q)) (e%sEq p q)) :pattern ((e%sEq p (e%sAffine q))))))\n", c, c, c, c, c)
		}
		b.WriteString("(assert (forall ((a Int) (b Int)) (! (and (= (fp2c0 (fp2c a b)) a) (= (fp2c1 (fp2c a b)) b)) :pattern ((fp2c a b)))))\n")
		for _, f := range []string{"e1x", "e1y", "e1z", "e2x", "e2y", "e2z"} {
			fmt.Fprintf(&b, "(declare-fun %s (Int) Int)\n", f)
		}
		// abstract points: all representations with Z = 0 denote the point at infinity (BLST convention);
		// the coordinates of the other points are observable
		b.WriteString("(declare-const e1Inf Int)\n(declare-const e2Inf Int)\n(declare-const negG2 Int)\n")
		b.WriteString("(declare-fun mp2 (Int Int Int Int) Int)\n(declare-fun fp12IsOne (Int) Bool)\n(declare-fun h2cd (Int) Int)\n(declare-fun hout (Int Int) Int)\n(declare-fun kmacCfg (Int Int Int) Int)\n")
		b.WriteString("(assert (forall ((x Int) (y Int) (z Int)) (! (and (=> (= z 0) (= (e1c x y z) e1Inf)) (=> (not (= z 0)) (and (= (e1x (e1c x y z)) x) (= (e1y (e1c x y z)) y) (= (e1z (e1c x y z)) z) (not (= (e1c x y z) e1Inf))))) :pattern ((e1c x y z)))))\n")
		b.WriteString("(assert (forall ((x Int) (y Int) (z Int)) (! (and (=> (= z (fp2c 0 0)) (= (e2c x y z) e2Inf)) (=> (not (= z (fp2c 0 0))) (and (= (e2x (e2c x y z)) x) (= (e2y (e2c x y z)) y) (= (e2z (e2c x y z)) z) (not (= (e2c x y z) e2Inf))))) :pattern ((e2c x y z)))))\n")
		b.WriteString("(assert (forall ((p Int)) (! (= (e1IsInf p) (= p e1Inf)) :pattern ((e1IsInf p)))))\n")
		b.WriteString("(assert (forall ((p Int)) (! (= (e2IsInf p) (= p e2Inf)) :pattern ((e2IsInf p)))))\n")
		// the generator of G2 has prime order r: x*g2 is the identity exactly for x = 0 (mod r); scalars are kept reduced
		b.WriteString("(assert (forall ((x Int)) (! (=> (and (<= 0 x) (< x FrR)) (= (= (e2Affine (g2mulJ x)) e2Inf) (= x 0))) :pattern ((g2mulJ x)))))\n")
		b.WriteString("(assert (forall ((a Int) (b Int)) (! (= (= (fp2c a b) (fp2c 0 0)) (and (= a 0) (= b 0))) :pattern ((fp2c a b)))))\n")
		b.WriteString("(assert (forall ((x Int)) (! (and (<= 0 (fpFromMont x)) (< (fpFromMont x) FpP)) :pattern ((fpFromMont x)))))\n")
		// x | y for x below 2^5 and y in {0, 2^5} (the sign flag): a true fact about bitwise or
		b.WriteString("(assert (forall ((x Int) (y Int)) (! (=> (and (<= 0 x) (< x 32) (or (= y 0) (= y 32))) (= (bor_int x y) (+ x y))) :pattern ((bor_int x y)))))\n")
		b.WriteString("(assert (forall ((y Int)) (! (and (<= 0 (fpSgn y)) (<= (fpSgn y) 1)) :pattern ((fpSgn y)))))\n")
		b.WriteString("(assert (forall ((y Int)) (! (and (<= 0 (fp2Sgn y)) (<= (fp2Sgn y) 1)) :pattern ((fp2Sgn y)))))\n")
		fmt.Fprintf(&b, "(define-fun h2cb ((h %s) (s Slice)) Int (h2cd (seqid h s)))\n", hs)
		b.WriteString("(declare-fun cshakeNew (Int Int) Int)\n(declare-fun shAbsorb (Int Int) Int)\n(declare-fun shInit (Int) Int)\n(declare-fun shOut (Int Int) Int)\n")
		b.WriteString("(assert (forall ((s Int) (x Int)) (! (= (shInit (shAbsorb s x)) (shInit s)) :pattern ((shAbsorb s x)))))\n")
		b.WriteString("(assert (forall ((n Int) (c Int)) (! (= (shInit (cshakeNew n c)) (cshakeNew n c)) :pattern ((cshakeNew n c)))))\n")
		b.WriteString("(assert (forall ((s Int)) (! (= (shInit (shInit s)) (shInit s)) :pattern ((shInit s)))))\n")
		b.WriteString("(assert (forall ((s Int) (k Int)) (! (and (<= 0 (shOut s k)) (<= (shOut s k) 255)) :pattern ((shOut s k)))))\n")
		b.WriteString(ecdsaTheory(hs))
		b.WriteString(foldTheory())
		b.WriteString("(declare-fun g2vecValidA ((Array Int Int) Int Int) Bool)\n")
		fmt.Fprintf(&b, "(define-fun g2vecValid ((h %s) (s Slice) (n Int)) Bool (g2vecValidA (select h (p.obj (sl.ptr s))) (p.off (sl.ptr s)) n))\n", hs)
		b.WriteString("(declare-fun ks (Int Int) Int)\n(declare-fun xor8 (Int Int) Int)\n")
		b.WriteString("(assert (forall ((x Int)) (! (= (xor8 0 x) x) :pattern ((xor8 0 x)))))\n")
		b.WriteString("(assert (forall ((s Int) (i Int)) (! (and (<= 0 (ks s i)) (<= (ks s i) 255)) :pattern ((ks s i)))))\n")
		var sorts, args []string
		for k := 0; k < 32; k++ {
			sorts = append(sorts, "Int")
			args = append(args, fmt.Sprintf("(select (select h (p.obj (sl.ptr k))) (+ (p.off (sl.ptr k)) %d))", k))
		}
		for k := 0; k < 12; k++ {
			sorts = append(sorts, "Int")
			args = append(args, fmt.Sprintf("(select (select h (p.obj (sl.ptr n))) (+ (p.off (sl.ptr n)) %d))", k))
		}
		fmt.Fprintf(&b, "(declare-fun stream44 (%s) Int)\n", strings.Join(sorts, " "))
		fmt.Fprintf(&b, "(define-fun chachaStream ((h %s) (k Slice) (n Slice)) Int (stream44 %s))\n", hs, strings.Join(args, " "))
	}
	b.WriteString(extraTheory[m.BV])
	if !noLemmas {
		b.WriteString(lemmaText(m))
	}
	return b.String()
}

var extraTheory = map[bool]string{}

var noLemmas bool

// Lemma is a spec-level fact proved once per run (against the bare theory) and then available as an
// assertion in every verification condition of the same mode.
type Lemma struct {
	Name  string
	BV    bool
	SMT      string // closed formula
	Props    []string
	NoAssert bool // proved for the record (bridges a paper step), not added to the verification conditions
	Uses     []string    // theory symbols: the lemma is proved by every check whose verification conditions mention one of them
	Steps    []LemmaStep // if non-empty: the lemma is proved by induction, these are the obligations (base, step) proved instead of SMT itself
}

// LemmaStep is one obligation of a proof by induction (closed formula over the constants declared in Decls).
type LemmaStep struct {
	Name  string
	Decls []string
	Goal  string
}

var Lemmas []Lemma

func init() {
	// a 64-bit value is below 256^n exactly when its 8-n most significant big-endian bytes are zero
	for n := 1; n <= 7; n++ {
		var zs []string
		for k := 0; k < 8-n; k++ {
			zs = append(zs, fmt.Sprintf("(= (bebyte v %d) 0)", k))
		}
		Lemmas = append(Lemmas, Lemma{
			Name:  fmt.Sprintf("bebyte-threshold-%d", n),
			SMT:   fmt.Sprintf("(forall ((v Int)) (! (=> (and (<= 0 v) (< v 18446744073709551616)) (= (< v %s) %s)) :pattern ((bytelen v))))", pow2(8*n).String(), sAnd(zs...)),
			Props: []string{"C13"},
		})
	}
}

func init() {
	// C01, discrete-log model of the pairing groups (G1, G2, GT cyclic of prime order r): with dS = log(S), t = sk*log(H),
	// the verification equation e(S,-g2)*e(H, sk*g2) = 1 reads dS*(r-1) + t = 0 (mod r); it holds exactly for dS = t mod r,
	// i.e. for the single point S = sk*H.
	Lemmas = append(Lemmas, Lemma{
		Name:     "bls-acceptance-is-the-single-point-sk-times-H",
		SMT:      "(forall ((dS Int) (t Int)) (=> (and (<= 0 dS) (< dS FrR) (<= 0 t)) (= (= (mod (+ (* dS (- FrR 1)) t) FrR) 0) (= dS (mod t FrR)))))",
		Props:    []string{"C01", "C17"},
		NoAssert: true,
	})
	// C17, same model: with x = log(p1)*log(pk2), y = log(p2)*log(pk1), SPOCKVerify's equation e(p1,-pk2)*e(p2,pk1) = 1 reads
	// y - x = 0 (mod r) and the swapped call's equation reads x - y = 0 (mod r): the same verdict.
	Lemmas = append(Lemmas, Lemma{
		Name:     "spock-equation-is-symmetric-under-swapping-the-pairs",
		SMT:      "(forall ((x Int) (y Int)) (= (= (mod (- y x) FrR) 0) (= (mod (- x y) FrR) 0)))",
		Props:    []string{"C17"},
		NoAssert: true,
	})
}

// lemmaText returns the lemmas of mode m as assertions (they are proved separately by every run that uses them).
func lemmaText(m Mode) string {
	var b strings.Builder
	for _, l := range Lemmas {
		if l.BV == m.BV && !l.NoAssert {
			b.WriteString("(assert " + l.SMT + ")\n")
		}
	}
	return b.String()
}

// ecdsaTheory: spec-level vocabulary of the ECDSA glue (everything here is the assumed meaning of Go's standard library,
// crypto/ecdsa, crypto/elliptic, crypto/ecdh, btcec and math/big; the constants are the group orders and field primes
// of NIST P-256 and secp256k1).
func ecdsaTheory(hs string) string {
	var b strings.Builder
	const (
		nP256 = "115792089210356248762697446949407573529996955224135760342422259061068512044369"
		pP256 = "115792089210356248762697446949407573530086143415290314195533631308867097853951"
		nS256 = "115792089237316195423570985008687907852837564279074904382605163141518161494337"
		pS256 = "115792089237316195423570985008687907853269984665640564039457584007908834671663"
	)
	b.WriteString("(declare-fun rnd (Int Int) Int)\n(assert (forall ((d Int) (k Int)) (! (and (<= 0 (rnd d k)) (<= (rnd d k) 255)) :pattern ((rnd d k)))))\n")
	b.WriteString("(declare-fun benatA ((Array Int Int) Int Int) Int)\n")
	fmt.Fprintf(&b, "(define-fun benat ((h %s) (s Slice)) Int (ite (= (sl.len s) 32) (be32 h s) (ite (= (sl.len s) 0) 0 (benatA (select h (p.obj (sl.ptr s))) (p.off (sl.ptr s)) (sl.len s)))))\n", hs)
	b.WriteString("(assert (forall ((a (Array Int Int)) (o Int) (n Int)) (! (<= 0 (benatA a o n)) :pattern ((benatA a o n)))))\n")
	// be32A(a, o): the big-endian value of the 32 bytes at (a, o), as a function symbol (same value as be32)
	{
		var args []string
		for k := 1; k < 32; k++ {
			args = append(args, fmt.Sprintf("(select a (+ o %d))", k))
		}
		b.WriteString("(declare-fun be32A ((Array Int Int) Int) Int)\n")
		fmt.Fprintf(&b, "(assert (forall ((a (Array Int Int)) (o Int)) (! (= (be32A a o) (+ (* %s (select a o)) (be32low %s))) :pattern ((be32A a o)))))\n", pow2(248).String(), strings.Join(args, " "))
		fmt.Fprintf(&b, "(define-fun be32v ((h %s) (s Slice)) Int (be32A (select h (p.obj (sl.ptr s))) (p.off (sl.ptr s))))\n", hs)
		// assumed (arithmetic of positional notation): the big-endian value of a string is unchanged by left-padding with zero bytes
		b.WriteString("(assert (forall ((a (Array Int Int)) (oa Int) (b (Array Int Int)) (ob Int) (n Int)) (! (=> (and (<= 0 n) (<= n 32) (forall ((q Int)) (! (=> (and (<= oa q) (< q (+ oa (- 32 n)))) (= (select a q) 0)) :pattern ((select a q)))) (forall ((q Int)) (! (=> (and (<= ob q) (< q (+ ob n))) (= (select b q) (select a (+ (- q ob) (+ oa (- 32 n)))))) :pattern ((select b q))))) (= (be32A a oa) (ite (= n 0) 0 (ite (= n 32) (be32A b ob) (benatA b ob n))))) :pattern ((be32A a oa) (benatA b ob n)))))\n")
	}
	b.WriteString("(declare-const p256c Iface)\n(declare-const s256c Iface)\n(declare-const s256p Ptr)\n(assert (not (= (p.obj s256p) 0)))\n(assert (not (= p256c s256c)))\n(assert (and (not (= (if.dyn p256c) 0)) (not (= (if.dyn s256c) 0))))\n")
	b.WriteString("(declare-fun curveN (Iface) Int)\n(declare-fun curveP (Iface) Int)\n(declare-fun curveBits (Iface) Int)\n(declare-fun bitlen (Int) Int)\n")
	fmt.Fprintf(&b, "(assert (and (= (curveN p256c) %s) (= (curveP p256c) %s) (= (curveBits p256c) 256)))\n", nP256, pP256)
	fmt.Fprintf(&b, "(assert (and (= (curveN s256c) %s) (= (curveP s256c) %s) (= (curveBits s256c) 256)))\n", nS256, pS256)
	fmt.Fprintf(&b, "(assert (forall ((v Int)) (! (=> (and (<= %s v) (< v %s)) (= (bitlen v) 256)) :pattern ((bitlen v)))))\n", pow2(255).String(), pow2(256).String())
	b.WriteString("(declare-fun ecdsaEq (Iface Int Int Int Int Int) Bool)\n(declare-fun ecdsaSigOf (Iface Int Int Int Int) Bool)\n")
	b.WriteString("(declare-fun pubX (Iface Int) Int)\n(declare-fun pubY (Iface Int) Int)\n(declare-fun onCurve (Iface Int Int) Bool)\n(declare-fun compressedOK (Iface Int Int) Bool)\n")
	b.WriteString("(declare-fun hkdfSha256 (Int Int Int Int) Int)\n(declare-fun hkdfNat (Int Int Int Int) Int)\n")
	// decompY(c, tag, x): the y coordinate X9.62 decompression selects for the tag byte (2: even y, 3: odd y). A point of the
	// curve with reduced coordinates is what decompressing its own compressed form gives back (assumed: at most one y of
	// each parity below p satisfies the curve equation for a given x).
	b.WriteString("(declare-fun decompY (Iface Int Int) Int)\n")
	// streaming hashers of the standard library: seqcat names the concatenation of two named byte strings (the empty string
	// is a left unit), hashOf(kind, m) the digest of message m under hash function `kind` (256: SHA-256, 384: SHA-384)
	b.WriteString("(declare-fun seqcat (Int Int) Int)\n(declare-fun seqEmpty () Int)\n(declare-fun hashOf (Int Int) Int)\n")
	b.WriteString("(assert (forall ((x Int)) (! (= (seqcat seqEmpty x) x) :pattern ((seqcat seqEmpty x)))))\n")
	b.WriteString("(assert (forall ((c Iface) (x Int) (y Int)) (! (=> (and (onCurve c x y) (<= 0 y) (< y (curveP c))) (and (compressedOK c (+ 2 (mod y 2)) x) (= (decompY c (+ 2 (mod y 2)) x) y))) :pattern ((onCurve c x y)))))\n")
	// the public point of a scalar in [1, n-1] is a point of the curve with coordinates below p
	b.WriteString("(assert (forall ((c Iface) (d Int)) (! (=> (and (<= 1 d) (< d (curveN c))) (and (onCurve c (pubX c d) (pubY c d)) (<= 0 (pubX c d)) (< (pubX c d) (curveP c)) (<= 0 (pubY c d)) (< (pubY c d) (curveP c)))) :pattern ((pubX c d)))))\n")
	return b.String()
}
