package vc

import (
	"fmt"
	"go/types"
	"strings"

	"golang.org/x/tools/go/ssa"
)

type ssaGlobal = ssa.Global

// TheoryFn is a spec-level function usable in contracts.
type TheoryFn struct {
	SMT     string
	Args    []string
	Ret     string   // result sort in int mode
	RetBV   string   // result sort in bv mode ("" = same)
	RetT    types.Type
	HeapArg string // "byte": the current byte heap is passed as first argument
}

var Theory = map[string]TheoryFn{}

var typU64 = types.Typ[types.Uint64]

func init() {
	Theory["le64"] = TheoryFn{SMT: "le64", HeapArg: "byte", Ret: "Int", RetBV: "(_ BitVec 64)", RetT: typU64}
	Theory["le64z"] = TheoryFn{SMT: "le64z", HeapArg: "byte", Ret: "Int", RetBV: "(_ BitVec 64)", RetT: typU64}
	Theory["be64"] = TheoryFn{SMT: "be64", HeapArg: "byte", Ret: "Int", RetBV: "(_ BitVec 64)", RetT: typU64}
	// smear(x): the smallest 2^b-1 >= x (all bits below the top set bit of x set); bv mode only
	Theory["smear"] = TheoryFn{SMT: "smear64", Ret: "Int", RetBV: "(_ BitVec 64)", RetT: typU64}
	// g2vecValid(bytes, n): the 96n bytes at the start of the slice are canonical encodings of n points of G2 (int mode)
	Theory["g2vecValid"] = TheoryFn{SMT: "g2vecValid", HeapArg: "byte", Ret: "Bool", RetT: types.Typ[types.Bool]}
	// big-endian bytes of a 64-bit value (int mode): bebyte(v, m) is byte m (0 = most significant), bytelen(v) the
	// minimal number of bytes (at least 1) -- the "n" of SP 800-185 left_encode / right_encode
	Theory["bebyte"] = TheoryFn{SMT: "bebyte", Ret: "Int", RetT: types.Typ[types.Uint8]}
	Theory["bytelen"] = TheoryFn{SMT: "bytelen", Ret: "Int", RetT: typInt}
	// cSHAKE / KMAC (int mode): abstract sponge states of x/crypto's ShakeHash
	Theory["seqid"] = TheoryFn{SMT: "seqid", HeapArg: "byte", Ret: "Int", RetT: typInt}
	Theory["rencSeq"] = TheoryFn{SMT: "rencSeq", Ret: "Int", RetT: typInt}
	Theory["cshakeNew"] = TheoryFn{SMT: "cshakeNew", Ret: "Int", RetT: typInt}
	Theory["shAbsorb"] = TheoryFn{SMT: "shAbsorb", Ret: "Int", RetT: typInt}
	Theory["shInit"] = TheoryFn{SMT: "shInit", Ret: "Int", RetT: typInt}
	Theory["shOut"] = TheoryFn{SMT: "shOut", Ret: "Int", RetT: types.Typ[types.Uint8]}
	// ChaCha20 (int mode only): ks(sid, i) is byte i of the keystream of stream sid;
	// chachaStream(key, nonce) names the stream of a 32-byte key and a 12-byte nonce by their contents.
	Theory["ks"] = TheoryFn{SMT: "ks", Ret: "Int", RetT: types.Typ[types.Uint8]}
	Theory["xor8"] = TheoryFn{SMT: "xor8", Ret: "Int", RetT: types.Typ[types.Uint8]}
	Theory["chachaStream"] = TheoryFn{SMT: "chachaStream", HeapArg: "byte", Ret: "Int", RetT: typInt}
}

// TheoryPrelude returns the SMT-LIB declarations of the spec-level theories for mode m.
func TheoryPrelude(m Mode) string {
	var b strings.Builder
	ix := m.IX()
	if m.BV {
		hs := "(Array Int (Array (_ BitVec 64) (_ BitVec 8)))"
		byteAt := func(k int) string {
			return fmt.Sprintf("(select (select h (p.obj (sl.ptr s))) (bvadd (p.off (sl.ptr s)) (_ bv%d 64)))", k)
		}
		// little endian: byte 0 is least significant -> last in concat
		var le, be, lez []string
		for k := 7; k >= 0; k-- {
			le = append(le, byteAt(k))
			lez = append(lez, fmt.Sprintf("(ite (bvslt (_ bv%d 64) n) %s (_ bv0 8))", k, byteAt(k)))
		}
		for k := 0; k < 8; k++ {
			be = append(be, byteAt(k))
		}
		fmt.Fprintf(&b, "(define-fun le64 ((h %s) (s Slice)) (_ BitVec 64) (concat %s))\n", hs, strings.Join(le, " "))
		fmt.Fprintf(&b, "(define-fun be64 ((h %s) (s Slice)) (_ BitVec 64) (concat %s))\n", hs, strings.Join(be, " "))
		fmt.Fprintf(&b, "(define-fun le64z ((h %s) (s Slice) (n %s)) (_ BitVec 64) (concat %s))\n", hs, ix, strings.Join(lez, " "))
		b.WriteString("(define-fun smear64 ((x (_ BitVec 64))) (_ BitVec 64) (let ((a (bvor x (bvlshr x (_ bv1 64))))) (let ((b (bvor a (bvlshr a (_ bv2 64))))) (let ((c (bvor b (bvlshr b (_ bv4 64))))) (let ((d (bvor c (bvlshr c (_ bv8 64))))) (let ((e (bvor d (bvlshr d (_ bv16 64))))) (bvor e (bvlshr e (_ bv32 64)))))))))\n")
	} else {
		hs := "(Array Int (Array Int Int))"
		byteAt := func(k int) string {
			return fmt.Sprintf("(select (select h (p.obj (sl.ptr s))) (+ (p.off (sl.ptr s)) %d))", k)
		}
		var le, be, lez []string
		for k := 0; k < 8; k++ {
			le = append(le, fmt.Sprintf("(* %s %s)", pow2(8*k).String(), byteAt(k)))
			be = append(be, fmt.Sprintf("(* %s %s)", pow2(8*(7-k)).String(), byteAt(k)))
			lez = append(lez, fmt.Sprintf("(ite (< %d n) (* %s %s) 0)", k, pow2(8*k).String(), byteAt(k)))
		}
		fmt.Fprintf(&b, "(define-fun le64 ((h %s) (s Slice)) Int (+ %s))\n", hs, strings.Join(le, " "))
		fmt.Fprintf(&b, "(define-fun be64 ((h %s) (s Slice)) Int (+ %s))\n", hs, strings.Join(be, " "))
		fmt.Fprintf(&b, "(define-fun le64z ((h %s) (s Slice) (n Int)) Int (+ %s))\n", hs, strings.Join(lez, " "))
		b.WriteString("(declare-fun smear64 (Int) Int)\n")
		pw := "1"
		for m := 6; m >= 0; m-- {
			pw = fmt.Sprintf("(ite (= m %d) %s %s)", m, pow2(8*(7-m)).String(), pw)
		}
		fmt.Fprintf(&b, "(declare-fun bebyte (Int Int) Int)\n(assert (forall ((v Int) (m Int)) (! (= (bebyte v m) (mod (div v %s) 256)) :pattern ((bebyte v m)))))\n", pw)
		bl := "8"
		for n := 7; n >= 1; n-- {
			bl = fmt.Sprintf("(ite (< v %s) %d %s)", pow2(8*n).String(), n, bl)
		}
		fmt.Fprintf(&b, "(declare-fun bytelen (Int) Int)\n(assert (forall ((v Int)) (! (= (bytelen v) %s) :pattern ((bytelen v)))))\n", bl)
		// sequences of bytes as abstract values: short ones (<= 9 bytes) by content, longer ones by location
		b.WriteString("(declare-fun seq9 (Int Int Int Int Int Int Int Int Int Int) Int)\n(declare-fun seqidA ((Array Int Int) Int Int) Int)\n")
		var sb []string
		for k := 0; k < 9; k++ {
			sb = append(sb, fmt.Sprintf("(ite (< %d (sl.len s)) (select (select h (p.obj (sl.ptr s))) (+ (p.off (sl.ptr s)) %d)) 0)", k, k))
		}
		fmt.Fprintf(&b, "(define-fun seqid ((h %s) (s Slice)) Int (ite (<= (sl.len s) 9) (seq9 (sl.len s) %s) (seqidA (select h (p.obj (sl.ptr s))) (p.off (sl.ptr s)) (sl.len s))))\n", hs, strings.Join(sb, " "))
		var rb []string
		for k := 0; k < 9; k++ {
			rb = append(rb, fmt.Sprintf("(ite (< %d (bytelen v)) (bebyte v (+ (- 8 (bytelen v)) %d)) (ite (= %d (bytelen v)) (bytelen v) 0))", k, k, k))
		}
		fmt.Fprintf(&b, "(define-fun rencSeq ((v Int)) Int (seq9 (+ (bytelen v) 1) %s))\n", strings.Join(rb, " "))
		b.WriteString("(declare-fun seqOfStr (Str) Int)\n")
		b.WriteString("(declare-fun cshakeNew (Int Int) Int)\n(declare-fun shAbsorb (Int Int) Int)\n(declare-fun shInit (Int) Int)\n(declare-fun shOut (Int Int) Int)\n")
		b.WriteString("(assert (forall ((s Int) (x Int)) (! (= (shInit (shAbsorb s x)) (shInit s)) :pattern ((shAbsorb s x)))))\n")
		b.WriteString("(assert (forall ((n Int) (c Int)) (! (= (shInit (cshakeNew n c)) (cshakeNew n c)) :pattern ((cshakeNew n c)))))\n")
		b.WriteString("(assert (forall ((s Int)) (! (= (shInit (shInit s)) (shInit s)) :pattern ((shInit s)))))\n")
		b.WriteString("(assert (forall ((s Int) (k Int)) (! (and (<= 0 (shOut s k)) (<= (shOut s k) 255)) :pattern ((shOut s k)))))\n")
		b.WriteString("(declare-fun g2vecValidA ((Array Int Int) Int Int) Bool)\n")
		fmt.Fprintf(&b, "(define-fun g2vecValid ((h %s) (s Slice) (n Int)) Bool (g2vecValidA (select h (p.obj (sl.ptr s))) (p.off (sl.ptr s)) n))\n", hs)
		b.WriteString("(declare-fun ks (Int Int) Int)\n(declare-fun xor8 (Int Int) Int)\n")
		b.WriteString("(assert (forall ((x Int)) (! (= (xor8 0 x) x) :pattern ((xor8 0 x)))))\n")
		b.WriteString("(assert (forall ((s Int) (i Int)) (! (and (<= 0 (ks s i)) (<= (ks s i) 255)) :pattern ((ks s i)))))\n")
		var sorts, args []string
		for k := 0; k < 32; k++ {
			sorts = append(sorts, "Int")
			args = append(args, fmt.Sprintf("(select (select h (p.obj (sl.ptr k))) (+ (p.off (sl.ptr k)) %d))", k))
		}
		for k := 0; k < 12; k++ {
			sorts = append(sorts, "Int")
			args = append(args, fmt.Sprintf("(select (select h (p.obj (sl.ptr n))) (+ (p.off (sl.ptr n)) %d))", k))
		}
		fmt.Fprintf(&b, "(declare-fun stream44 (%s) Int)\n", strings.Join(sorts, " "))
		fmt.Fprintf(&b, "(define-fun chachaStream ((h %s) (k Slice) (n Slice)) Int (stream44 %s))\n", hs, strings.Join(args, " "))
	}
	b.WriteString(extraTheory[m.BV])
	if !noLemmas {
		b.WriteString(lemmaText(m))
	}
	return b.String()
}

var extraTheory = map[bool]string{}

var noLemmas bool

// Lemma is a spec-level fact proved once per run (against the bare theory) and then available as an
// assertion in every verification condition of the same mode.
type Lemma struct {
	Name  string
	BV    bool
	SMT   string // closed formula
	Props []string
}

var Lemmas []Lemma

func init() {
	// a 64-bit value is below 256^n exactly when its 8-n most significant big-endian bytes are zero
	for n := 1; n <= 7; n++ {
		var zs []string
		for k := 0; k < 8-n; k++ {
			zs = append(zs, fmt.Sprintf("(= (bebyte v %d) 0)", k))
		}
		Lemmas = append(Lemmas, Lemma{
			Name:  fmt.Sprintf("bebyte-threshold-%d", n),
			SMT:   fmt.Sprintf("(forall ((v Int)) (! (=> (and (<= 0 v) (< v 18446744073709551616)) (= (< v %s) %s)) :pattern ((bytelen v))))", pow2(8*n).String(), sAnd(zs...)),
			Props: []string{"C13"},
		})
	}
}

// lemmaText returns the lemmas of mode m as assertions (they are proved separately by every run that uses them).
func lemmaText(m Mode) string {
	var b strings.Builder
	for _, l := range Lemmas {
		if l.BV == m.BV {
			b.WriteString("(assert " + l.SMT + ")\n")
		}
	}
	return b.String()
}
