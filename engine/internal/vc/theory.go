package vc

import (
	"fmt"
	"go/types"
	"strings"

	"golang.org/x/tools/go/ssa"
)

type ssaGlobal = ssa.Global

// TheoryFn is a spec-level function usable in contracts.
type TheoryFn struct {
	SMT     string
	Args    []string
	Ret     string   // result sort in int mode
	RetBV   string   // result sort in bv mode ("" = same)
	RetT    types.Type
	HeapArg string // "byte": the current byte heap is passed as first argument
}

var Theory = map[string]TheoryFn{}

var typU64 = types.Typ[types.Uint64]

func init() {
	Theory["le64"] = TheoryFn{SMT: "le64", HeapArg: "byte", Ret: "Int", RetBV: "(_ BitVec 64)", RetT: typU64}
	Theory["le64z"] = TheoryFn{SMT: "le64z", HeapArg: "byte", Ret: "Int", RetBV: "(_ BitVec 64)", RetT: typU64}
	Theory["be64"] = TheoryFn{SMT: "be64", HeapArg: "byte", Ret: "Int", RetBV: "(_ BitVec 64)", RetT: typU64}
	// smear(x): the smallest 2^b-1 >= x (all bits below the top set bit of x set); bv mode only
	Theory["smear"] = TheoryFn{SMT: "smear64", Ret: "Int", RetBV: "(_ BitVec 64)", RetT: typU64}
	// g2vecValid(bytes, n): the 96n bytes at the start of the slice are canonical encodings of n points of G2 (int mode)
	Theory["g2vecValid"] = TheoryFn{SMT: "g2vecValid", HeapArg: "byte", Ret: "Bool", RetT: types.Typ[types.Bool]}
	// ChaCha20 (int mode only): ks(sid, i) is byte i of the keystream of stream sid;
	// chachaStream(key, nonce) names the stream of a 32-byte key and a 12-byte nonce by their contents.
	Theory["ks"] = TheoryFn{SMT: "ks", Ret: "Int", RetT: types.Typ[types.Uint8]}
	Theory["xor8"] = TheoryFn{SMT: "xor8", Ret: "Int", RetT: types.Typ[types.Uint8]}
	Theory["chachaStream"] = TheoryFn{SMT: "chachaStream", HeapArg: "byte", Ret: "Int", RetT: typInt}
}

// TheoryPrelude returns the SMT-LIB declarations of the spec-level theories for mode m.
func TheoryPrelude(m Mode) string {
	var b strings.Builder
	ix := m.IX()
	if m.BV {
		hs := "(Array Int (Array (_ BitVec 64) (_ BitVec 8)))"
		byteAt := func(k int) string {
			return fmt.Sprintf("(select (select h (p.obj (sl.ptr s))) (bvadd (p.off (sl.ptr s)) (_ bv%d 64)))", k)
		}
		// little endian: byte 0 is least significant -> last in concat
		var le, be, lez []string
		for k := 7; k >= 0; k-- {
			le = append(le, byteAt(k))
			lez = append(lez, fmt.Sprintf("(ite (bvslt (_ bv%d 64) n) %s (_ bv0 8))", k, byteAt(k)))
		}
		for k := 0; k < 8; k++ {
			be = append(be, byteAt(k))
		}
		fmt.Fprintf(&b, "(define-fun le64 ((h %s) (s Slice)) (_ BitVec 64) (concat %s))\n", hs, strings.Join(le, " "))
		fmt.Fprintf(&b, "(define-fun be64 ((h %s) (s Slice)) (_ BitVec 64) (concat %s))\n", hs, strings.Join(be, " "))
		fmt.Fprintf(&b, "(define-fun le64z ((h %s) (s Slice) (n %s)) (_ BitVec 64) (concat %s))\n", hs, ix, strings.Join(lez, " "))
		b.WriteString("(define-fun smear64 ((x (_ BitVec 64))) (_ BitVec 64) (let ((a (bvor x (bvlshr x (_ bv1 64))))) (let ((b (bvor a (bvlshr a (_ bv2 64))))) (let ((c (bvor b (bvlshr b (_ bv4 64))))) (let ((d (bvor c (bvlshr c (_ bv8 64))))) (let ((e (bvor d (bvlshr d (_ bv16 64))))) (bvor e (bvlshr e (_ bv32 64)))))))))\n")
	} else {
		hs := "(Array Int (Array Int Int))"
		byteAt := func(k int) string {
			return fmt.Sprintf("(select (select h (p.obj (sl.ptr s))) (+ (p.off (sl.ptr s)) %d))", k)
		}
		var le, be, lez []string
		for k := 0; k < 8; k++ {
			le = append(le, fmt.Sprintf("(* %s %s)", pow2(8*k).String(), byteAt(k)))
			be = append(be, fmt.Sprintf("(* %s %s)", pow2(8*(7-k)).String(), byteAt(k)))
			lez = append(lez, fmt.Sprintf("(ite (< %d n) (* %s %s) 0)", k, pow2(8*k).String(), byteAt(k)))
		}
		fmt.Fprintf(&b, "(define-fun le64 ((h %s) (s Slice)) Int (+ %s))\n", hs, strings.Join(le, " "))
		fmt.Fprintf(&b, "(define-fun be64 ((h %s) (s Slice)) Int (+ %s))\n", hs, strings.Join(be, " "))
		fmt.Fprintf(&b, "(define-fun le64z ((h %s) (s Slice) (n Int)) Int (+ %s))\n", hs, strings.Join(lez, " "))
		b.WriteString("(declare-fun smear64 (Int) Int)\n")
		b.WriteString("(declare-fun g2vecValidA ((Array Int Int) Int Int) Bool)\n")
		fmt.Fprintf(&b, "(define-fun g2vecValid ((h %s) (s Slice) (n Int)) Bool (g2vecValidA (select h (p.obj (sl.ptr s))) (p.off (sl.ptr s)) n))\n", hs)
		b.WriteString("(declare-fun ks (Int Int) Int)\n(declare-fun xor8 (Int Int) Int)\n")
		b.WriteString("(assert (forall ((x Int)) (! (= (xor8 0 x) x) :pattern ((xor8 0 x)))))\n")
		b.WriteString("(assert (forall ((s Int) (i Int)) (! (and (<= 0 (ks s i)) (<= (ks s i) 255)) :pattern ((ks s i)))))\n")
		var sorts, args []string
		for k := 0; k < 32; k++ {
			sorts = append(sorts, "Int")
			args = append(args, fmt.Sprintf("(select (select h (p.obj (sl.ptr k))) (+ (p.off (sl.ptr k)) %d))", k))
		}
		for k := 0; k < 12; k++ {
			sorts = append(sorts, "Int")
			args = append(args, fmt.Sprintf("(select (select h (p.obj (sl.ptr n))) (+ (p.off (sl.ptr n)) %d))", k))
		}
		fmt.Fprintf(&b, "(declare-fun stream44 (%s) Int)\n", strings.Join(sorts, " "))
		fmt.Fprintf(&b, "(define-fun chachaStream ((h %s) (k Slice) (n Slice)) Int (stream44 %s))\n", hs, strings.Join(args, " "))
	}
	b.WriteString(extraTheory[m.BV])
	return b.String()
}

var extraTheory = map[bool]string{}
