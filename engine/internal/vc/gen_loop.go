package vc

import (
	"fmt"
	"go/types"
	"sort"

	"golang.org/x/tools/go/ssa"
)

// definedOutside: v is defined outside loop l (so its term is loop-invariant).
func definedOutside(v ssa.Value, l *Loop) bool {
	in, ok := v.(ssa.Instruction)
	if !ok {
		return true
	}
	return !l.Blocks[in.Block()]
}

// invAddr returns a loop-invariant region covering the address v, or ok=false.
// fresh=true means the address lies in an object allocated inside the loop body (no havoc needed).
func (g *Gen) invAddr(v ssa.Value, l *Loop) (r Region, fresh bool, ok bool) {
	if definedOutside(v, l) {
		et, isPtr := deref(v.Type())
		if !isPtr {
			return Region{}, false, false
		}
		p := g.val(v)
		return Region{Obj: pObj(p), Lo: pOff(p), Hi: g.M.ixAdd(pOff(p), g.M.IxLit(g.L.Size(et))), T: et}, false, true
	}
	switch x := v.(type) {
	case *ssa.Alloc:
		return Region{}, true, true
	case *ssa.FieldAddr:
		br, fr, ok := g.invAddr(x.X, l)
		if !ok || fr {
			return br, fr, ok
		}
		st, _ := deref(x.X.Type())
		ft := st.Underlying().(*types.Struct).Field(x.Field).Type()
		lo := g.M.ixAdd(br.Lo, g.M.IxLit(g.L.FieldOff(st, x.Field)))
		return Region{Obj: br.Obj, Lo: lo, Hi: g.M.ixAdd(lo, g.M.IxLit(g.L.Size(ft))), T: ft}, false, true
	case *ssa.IndexAddr:
		// widen to the whole array / slice
		switch xt := x.X.Type().Underlying().(type) {
		case *types.Pointer:
			br, fr, ok := g.invAddr(x.X, l)
			if !ok || fr {
				return br, fr, ok
			}
			at := xt.Elem().Underlying().(*types.Array)
			return Region{Obj: br.Obj, Lo: br.Lo, Hi: br.Hi, T: at.Elem()}, false, true
		case *types.Slice:
			sr, fr, ok := g.invSlice(x.X, l)
			if !ok || fr {
				return sr, fr, ok
			}
			sr.T = xt.Elem()
			return sr, false, true
		}
	case *ssa.ChangeType:
		return g.invAddr(x.X, l)
	case *ssa.Convert:
		return g.invAddr(x.X, l)
	}
	return Region{}, false, false
}

// invSlice returns a loop-invariant region covering all elements of slice value v.
func (g *Gen) invSlice(v ssa.Value, l *Loop) (r Region, fresh bool, ok bool) {
	st, isSl := v.Type().Underlying().(*types.Slice)
	if !isSl {
		return Region{}, false, false
	}
	if definedOutside(v, l) {
		s := g.val(v)
		p := app("sl.ptr", s)
		return Region{Obj: pObj(p), Lo: pOff(p), Hi: g.M.ixAdd(pOff(p), g.M.ixMulC(app("sl.cap", s), g.L.Size(st.Elem()))), T: st.Elem()}, false, true
	}
	switch x := v.(type) {
	case *ssa.MakeSlice:
		return Region{}, true, true
	case *ssa.Slice:
		switch x.X.Type().Underlying().(type) {
		case *types.Slice:
			return g.invSlice(x.X, l)
		case *types.Pointer:
			return g.invAddr(x.X, l)
		}
	case *ssa.ChangeType:
		return g.invSlice(x.X, l)
	}
	return Region{}, false, false
}

func (g *Gen) sortsOfType(t types.Type) []string {
	seen := map[string]bool{}
	var out []string
	for _, r := range g.L.Ranges(t) {
		if !seen[r.Sort] {
			seen[r.Sort] = true
			out = append(out, r.Sort)
		}
	}
	return out
}

// havocLoop makes head the state of an arbitrary iteration of l, given the state on loop entry.
func (g *Gen) havocLoop(l *Loop, head *State, entrySt *State) {
	newAlloc := func() {
		a := g.freshConst("alloc", "Int")
		g.assume(app(">=", a, entrySt.Alloc))
		head.Alloc = a
	}
	if l.Spec.HavocAll {
		g.havocAll(head)
		newAlloc()
		return
	}
	allocates := false
	var regions []Region
	allHeaps := map[string]bool{}  // cell heaps havocked entirely (by sort)
	rawHeaps := map[string]bool{}  // raw (map) heaps havocked entirely
	everything := false
	if l.Spec.HasAssigns {
		env := g.loopEnv(l, entrySt, map[ssa.Value]string{})
		for _, a := range l.Spec.Assigns {
			r, err := env.EvalRegion(a)
			if err != nil {
				specFail("loop %d assigns %s: %v", l.Ordinal, exprString(a), err)
			}
			regions = append(regions, r)
		}
		l.Regions = regions
		l.Checked = true
	}
	for _, b := range sortedBlocks(l.Blocks) {
		for _, in := range b.Instrs {
			switch in := in.(type) {
			case *ssa.Alloc:
				if in.Heap {
					allocates = true
				} else {
					allocates = true
				}
			case *ssa.MakeSlice, *ssa.MakeMap, *ssa.MakeInterface, *ssa.MakeClosure:
				allocates = true
			case *ssa.Convert:
				allocates = true
			case *ssa.Store:
				if l.Checked {
					continue
				}
				r, fresh, ok := g.invAddr(in.Addr, l)
				if ok && fresh {
					continue
				}
				if ok {
					r.T = in.Val.Type()
					regions = append(regions, r)
				} else {
					for _, s := range g.sortsOfType(in.Val.Type()) {
						allHeaps[heapName(s)] = true
					}
				}
			case *ssa.Next:
				if rg, ok := in.Iter.(*ssa.Range); ok {
					if mt, ok := rg.X.Type().Underlying().(*types.Map); ok {
						ks := g.L.CellSort(mt.Key())
						g.mapVis(head, ks)
						rawHeaps[g.visName(ks)] = true
						g.rawHeap(head, "M_nvis", "(Array Int Int)")
						rawHeaps["M_nvis"] = true
						if g.L.CellSort(mt.Elem()) == "Slice" && !g.M.BV {
							g.rawHeap(head, "M_vissum", "(Array Int Int)")
							rawHeaps["M_vissum"] = true
						}
					}
				}
			case *ssa.MapUpdate:
				mt := in.Map.Type().Underlying().(*types.Map)
				ks, vs := g.L.CellSort(mt.Key()), g.L.CellSort(mt.Elem())
				g.mapDom(head, ks)
				g.mapVal(head, ks, vs)
				g.mapCard(head)
				rawHeaps[g.mapDomName(ks)] = true
				rawHeaps[g.mapValName(ks, vs)] = true
				rawHeaps["M_card"] = true
				if vs == "Slice" && !g.M.BV {
					g.rawHeap(head, "M_vlen", "(Array Int Int)")
					rawHeaps["M_vlen"] = true
				}
				if et, ok := deref(mt.Elem()); ok && g.isHeapType(et) {
					allHeaps[g.heapFor("GOwn")] = true
				}
			case ssa.CallInstruction:
				allocates = true
				if _, isDefer := in.(*ssa.Defer); isDefer {
					continue
				}
				if l.Checked {
					// map heaps are not covered by regions
					if g.callTouchesMaps(in) {
						everything = true
					}
					continue
				}
				regs, all := g.callLoopEffect(in, l)
				if all {
					everything = true
				}
				regions = append(regions, regs...)
			case *ssa.Go, *ssa.Send, *ssa.Select:
				g.unsupported("concurrency instruction %s", in)
			}
		}
	}
	if everything {
		g.havocAll(head)
		newAlloc()
		g.assumeFunctionFrame(head)
		return
	}
	for _, h := range sortedKeys(allHeaps) {
		head.H[h] = g.freshConst(h, g.heaps[h])
	}
	for _, h := range sortedKeys(rawHeaps) {
		head.H[h] = g.freshConst(h, g.heaps[h])
	}
	for _, r := range regions {
		if r.AllObjs {
			for _, srt := range r.Sorts {
				h := g.heapFor(srt)
				if !allHeaps[h] {
					allHeaps[h] = true
					head.H[h] = g.freshConst(h, g.heaps[h])
				}
			}
			continue
		}
		if r.Map {
			g.havocRegion(head, r)
			continue
		}
		// skip sorts that are havocked entirely
		var sorts []string
		cand := r.Sorts
		if cand == nil {
			if r.T != nil && !r.Whole {
				cand = g.sortsOfType(r.T)
			} else {
				cand = g.allHeapSorts()
			}
		}
		for _, s := range cand {
			if !allHeaps[heapName(s)] {
				sorts = append(sorts, s)
			}
		}
		if len(sorts) == 0 {
			continue
		}
		r.Sorts = sorts
		g.havocRegion(head, r)
	}
	if allocates {
		newAlloc()
	}
}

// sortedBlocks: the blocks of a loop in index order (deterministic generation)
func sortedBlocks(m map[*ssa.BasicBlock]bool) []*ssa.BasicBlock {
	bs := make([]*ssa.BasicBlock, 0, len(m))
	for b := range m {
		bs = append(bs, b)
	}
	sort.Slice(bs, func(i, j int) bool { return bs[i].Index < bs[j].Index })
	return bs
}


// assumeFunctionFrame: at a loop head whose effect is unknown ("everything" was havocked) the function's own frame still
// holds: every store, map update and call in the function is an obligation against the function's assigns clause (assert,
// then assume), so an object that existed at function entry can differ from its entry value only inside those regions.
// Objects allocated since entry are unconstrained. (Without this, a field that the function never assigns had to be restated
// as unchanged in every loop invariant; a refactoring that caches such a field in a local before the loop then broke the proof.)
func (g *Gen) assumeFunctionFrame(head *State) {
	if g.assignAll || g.isC || len(g.inlStack) > 0 || g.entry == nil {
		return
	}
	base := g.entry.clone()
	for _, r := range g.fnAssigns {
		g.havocRegion(base, r)
	}
	for _, h := range g.allHeapNames() {
		cur, ok := head.H[h]
		if !ok {
			continue
		}
		was := h + "@0"
		if t, ok := base.H[h]; ok {
			was = t
		}
		if cur == was {
			continue
		}
		q := g.fresh("o")
		g.assume(fmt.Sprintf("(forall ((%s Int)) (! (=> (<= %s alloc@0) (= (select %s %s) (select %s %s))) :pattern ((select %s %s))))", q, q, cur, q, was, q, cur, q))
	}
}
