package vc

import (
	"fmt"
	"go/types"
	"strings"
)

// Memory model: every object is a sequence of abstract cells; a pointer is (object id, cell offset).
// One heap per cell sort: H_<sort> : Array Int (Array IX <sort>).

// opaque named types occupy one Int cell holding a spec-level value.
var opaqueNames = map[string]bool{
	"scalar": true, "pointE1": true, "pointE2": true,
	"_Ctype_Fr": true, "_Ctype_E1": true, "_Ctype_E2": true, "_Ctype_Fp12": true, "_Ctype_Fp": true, "_Ctype_Fp2": true,
	"_Ctype_struct___0": false,
}

// Layout computes cell layouts of Go types for one mode.
type Layout struct {
	M     Mode
	Ghost map[string][]GhostField // by named struct type string
	sizes map[types.Type]int64
}

type GhostField struct {
	Name string
	T    types.Type
}

func NewLayout(m Mode) *Layout {
	return &Layout{M: m, Ghost: map[string][]GhostField{}, sizes: map[types.Type]int64{}}
}

func isOpaque(t types.Type) bool {
	if st, ok := t.Underlying().(*types.Struct); ok && OpaqueStructs[st] {
		return true
	}
	return false
}

// OpaqueStructs holds underlying struct types of opaque named types (filled by the loader),
// so that cgo's anonymous struct names are recognised too.
var OpaqueStructs = map[*types.Struct]bool{}

func isComposite(t types.Type) bool {
	if isOpaque(t) {
		return false
	}
	switch u := t.Underlying().(type) {
	case *types.Struct:
		return !OpaqueStructs[u]
	case *types.Array:
		return true
	}
	return false
}

// Local scalar variables of C functions whose address is never taken live in heaps of their own (H_LInt, H_LBool,
// H_LPtr), so that `i++` does not create a new version of the heap that holds the data the function works on.
// Their type is wrapped in a named type "loc$..." with the same underlying type.
var localTypes = map[string]*types.Named{}

func wrapLocal(t types.Type) types.Type {
	key := t.String()
	if n, ok := localTypes[key]; ok {
		return n
	}
	n := types.NewNamed(types.NewTypeName(0, nil, "loc$"+key, nil), t.Underlying(), nil)
	localTypes[key] = n
	return n
}

func isLocalType(t types.Type) bool {
	n, ok := t.(*types.Named)
	return ok && strings.HasPrefix(n.Obj().Name(), "loc$")
}

// unwrapLocal returns the value type of a local-variable type.
func unwrapLocal(t types.Type) types.Type {
	if isLocalType(t) {
		return t.Underlying()
	}
	return t
}

// CellSort returns the SMT sort of the single cell holding a scalar (non-composite) value of type t.
func (L *Layout) CellSort(t types.Type) string {
	if isLocalType(t) {
		return "L" + L.CellSort(t.Underlying())
	}
	if isOpaque(t) {
		return "Int"
	}
	if n, ok := t.(*types.Named); ok && n.Obj().Name() == "ghostint" {
		return "GInt"
	}
	if n, ok := t.(*types.Named); ok && n.Obj().Name() == "ghostlock" {
		return "GLock"
	}
	switch u := t.Underlying().(type) {
	case *types.Basic:
		switch {
		case u.Info()&types.IsBoolean != 0:
			return "Bool"
		case u.Info()&types.IsInteger != 0:
			if L.M.BV {
				w, _ := intBits(u)
				return bvSort(w)
			}
			return "Int"
		case u.Info()&types.IsString != 0:
			return "Str"
		case u.Kind() == types.UnsafePointer:
			return "Ptr"
		case u.Kind() == types.UntypedNil:
			return "Ptr"
		case u.Info()&types.IsFloat != 0:
			return "Real"
		}
	case *types.Pointer, *types.Map, *types.Chan:
		return "Ptr"
	case *types.Slice:
		return "Slice"
	case *types.Interface:
		return "Iface"
	case *types.Signature:
		return "Func"
	case *types.Struct:
		if OpaqueStructs[u] {
			return "Int"
		}
		return "Ptr" // composite values are handled through temp objects
	case *types.Array:
		return "Ptr"
	case *types.Tuple:
		return "Tuple"
	}
	panic(fmt.Sprintf("CellSort: unsupported type %v", t))
}

// ValSort is the sort of an SSA value of type t (composite values are pointers to temp objects).
func (L *Layout) ValSort(t types.Type) string { return L.CellSort(unwrapLocal(t)) }

func heapName(sort string) string {
	s := strings.NewReplacer("(_ BitVec ", "BV", ")", "", " ", "").Replace(sort)
	return "H_" + s
}

func (L *Layout) HeapSort(cell string) string {
	return fmt.Sprintf("(Array Int (Array %s %s))", L.M.IX(), cell)
}

// Size in cells.
func (L *Layout) Size(t types.Type) int64 {
	if s, ok := L.sizes[t]; ok {
		return s
	}
	var s int64
	if !isComposite(t) {
		s = 1
	} else {
		switch u := t.Underlying().(type) {
		case *types.Struct:
			for i := 0; i < u.NumFields(); i++ {
				s += L.Size(u.Field(i).Type())
			}
			for _, g := range L.ghostOf(t) {
				s += L.Size(g.T)
			}
			if s == 0 {
				s = 0
			}
		case *types.Array:
			s = u.Len() * L.Size(u.Elem())
		}
	}
	L.sizes[t] = s
	return s
}

func (L *Layout) ghostOf(t types.Type) []GhostField {
	if n, ok := types.Unalias(t).(*types.Named); ok {
		return L.Ghost[n.String()]
	}
	return nil
}

// FieldOff returns the cell offset of field i of struct type t.
func (L *Layout) FieldOff(t types.Type, i int) int64 {
	u := t.Underlying().(*types.Struct)
	var off int64
	for k := 0; k < i; k++ {
		off += L.Size(u.Field(k).Type())
	}
	return off
}

// GhostOff returns offset and type of ghost field name of named struct t.
func (L *Layout) GhostOff(t types.Type, name string) (int64, types.Type, bool) {
	u, ok := t.Underlying().(*types.Struct)
	if !ok {
		return 0, nil, false
	}
	var off int64
	for k := 0; k < u.NumFields(); k++ {
		off += L.Size(u.Field(k).Type())
	}
	for _, g := range L.ghostOf(t) {
		if g.Name == name {
			return off, g.T, true
		}
		off += L.Size(g.T)
	}
	return 0, nil, false
}

// Cell describes one scalar cell inside a composite type.
type Cell struct {
	Off  int64
	T    types.Type
	Sort string
}

// Cells flattens t into its scalar cells; arrays longer than maxArr are reported as ranges (Count>1).
type CellRange struct {
	Off   int64
	Count int64 // number of consecutive cells of this sort
	T     types.Type
	Sort  string
}

func (L *Layout) Ranges(t types.Type) []CellRange {
	var out []CellRange
	L.ranges(t, 0, &out)
	// merge adjacent
	var m []CellRange
	for _, r := range out {
		if n := len(m); n > 0 && m[n-1].Sort == r.Sort && m[n-1].Off+m[n-1].Count == r.Off {
			m[n-1].Count += r.Count
			continue
		}
		m = append(m, r)
	}
	return m
}

func (L *Layout) ranges(t types.Type, base int64, out *[]CellRange) {
	if !isComposite(t) {
		*out = append(*out, CellRange{Off: base, Count: 1, T: t, Sort: L.CellSort(t)})
		return
	}
	switch u := t.Underlying().(type) {
	case *types.Struct:
		off := base
		for i := 0; i < u.NumFields(); i++ {
			L.ranges(u.Field(i).Type(), off, out)
			off += L.Size(u.Field(i).Type())
		}
		for _, g := range L.ghostOf(t) {
			L.ranges(g.T, off, out)
			off += L.Size(g.T)
		}
	case *types.Array:
		es := L.Size(u.Elem())
		if !isComposite(u.Elem()) {
			if u.Len() > 0 {
				*out = append(*out, CellRange{Off: base, Count: u.Len(), T: u.Elem(), Sort: L.CellSort(u.Elem())})
			}
			return
		}
		for i := int64(0); i < u.Len(); i++ {
			L.ranges(u.Elem(), base+i*es, out)
		}
	}
}

// zero value term of a cell sort
func (L *Layout) Zero(sort string) string {
	if sort == "LInt" || sort == "LBool" || sort == "LPtr" {
		return L.Zero(sort[1:])
	}
	switch sort {
	case "Int", "GInt", "GOwn", "GLock":
		return "0"
	case "Bool":
		return "false"
	case "Ptr":
		return nilPtr(L.M)
	case "Slice":
		return fmt.Sprintf("(mksl %s %s %s)", nilPtr(L.M), L.M.IxLit(0), L.M.IxLit(0))
	case "Iface":
		return fmt.Sprintf("(mkif 0 %s)", nilPtr(L.M))
	case "Str":
		return "str_empty"
	case "Func":
		return "0"
	case "Real":
		return "0.0"
	}
	if strings.HasPrefix(sort, "(_ BitVec ") {
		var w int
		fmt.Sscanf(sort, "(_ BitVec %d)", &w)
		return fmt.Sprintf("(_ bv0 %d)", w)
	}
	panic("Zero: " + sort)
}

func nilPtr(m Mode) string { return fmt.Sprintf("(mkptr 0 %s)", m.IxLit(0)) }
