package main

import (
	"fmt"
	"os"

	"vcheck/internal/vc"
)

func main() {
	if len(os.Args) < 2 {
		fmt.Fprintln(os.Stderr, "usage: vcheck <list|check|...>")
		os.Exit(2)
	}
	os.Exit(vc.Main(os.Args[1:]))
}
